package main

// rule_bounds.go — R-BOUNDS (index / slice / count operands are in range on
// every path) and R-DIVGUARD (integer / and % have a non-zero divisor).

import (
	"fmt"
	"go/constant"
	"go/token"
	"go/types"
	"strings"

	"golang.org/x/tools/go/ssa"
)

type boundsChecker struct {
	m     *Model
	s     *Sink
	arith map[*ssa.Function]*Arith
	// trusted: construct key -> the parts of the obligation that are taken on trust, with the reason
	trusted map[string]trustedPart
}

// trustedPart: an explicit, single-site suppression of named sub-obligations that
// the arithmetic engine cannot reach; every other part must still be proven.
type trustedPart struct {
	parts  []string
	reason string
}

func (t trustedPart) covers(need []string) bool {
	for _, n := range need {
		ok := false
		for _, p := range t.parts {
			if p == n {
				ok = true
			}
		}
		if !ok {
			return false
		}
	}
	return true
}

func (m *Model) newBoundsChecker(s *Sink) *boundsChecker {
	m.NonnegInv()
	return &boundsChecker{m: m, s: s, arith: map[*ssa.Function]*Arith{}, trusted: trustedBounds}
}

func (bc *boundsChecker) ar(fn *ssa.Function) *Arith {
	if a, ok := bc.arith[fn]; ok {
		return a
	}
	a := bc.m.NewArith(fn)
	bc.arith[fn] = a
	return a
}

// lenForm: the length of container x as a linear form (constant for arrays).
func (bc *boundsChecker) lenForm(a *Arith, x ssa.Value) Lin {
	t := x.Type().Underlying()
	if p, ok := t.(*types.Pointer); ok {
		if arr, ok := p.Elem().Underlying().(*types.Array); ok {
			return linConst(arr.Len())
		}
	}
	if arr, ok := t.(*types.Array); ok {
		return linConst(arr.Len())
	}
	return a.lenLin(x, 0)
}

// inRange proves lo <= v (lo const) and v + slack <= len at the point.
func (bc *boundsChecker) proveGE(a *Arith, v Lin, lo int64, pt point) bool {
	// v >= lo  <=>  -v <= -lo
	return a.ProveValLE(v.scale(-1), -lo, pt)
}

func (bc *boundsChecker) proveLE(a *Arith, v Lin, w Lin, k int64, pt point) bool {
	// v - w <= k
	return a.ProveValLE(v.add(w, -1), k, pt)
}

// RunIndexOnly: the index and slice expressions of fns only.
func (bc *boundsChecker) RunIndexOnly(ruleB string, fns []*ssa.Function) {
	for _, fn := range fns {
		a := bc.ar(fn)
		for _, b := range fn.Blocks {
			for _, in := range b.Instrs {
				switch x := in.(type) {
				case *ssa.IndexAddr:
					bc.checkIndex(ruleB, fn, a, in, x.X, x.Index, pointOf(in))
				case *ssa.Index:
					bc.checkIndex(ruleB, fn, a, in, x.X, x.Index, pointOf(in))
				case *ssa.Slice:
					bc.checkSlice(ruleB, fn, a, x, pointOf(in))
				}
			}
		}
	}
}

func (bc *boundsChecker) Run(ruleB, ruleD string, fns []*ssa.Function) {
	m := bc.m
	for _, fn := range fns {
		a := bc.ar(fn)
		for _, b := range fn.Blocks {
			var pt *point
			getPt := func(in ssa.Instruction) point {
				if pt == nil {
					p := pointOf(in)
					pt = &p
				}
				return *pt
			}
			for _, in := range b.Instrs {
				switch x := in.(type) {
				case *ssa.BinOp:
					if (x.Op == token.QUO || x.Op == token.REM) && isInteger(x.X.Type()) {
						bc.checkDiv(ruleD, fn, a, x, getPt(in))
					}
				case *ssa.IndexAddr:
					bc.checkIndex(ruleB, fn, a, in, x.X, x.Index, getPt(in))
				case *ssa.Index:
					bc.checkIndex(ruleB, fn, a, in, x.X, x.Index, getPt(in))
				case *ssa.Slice:
					bc.checkSlice(ruleB, fn, a, x, getPt(in))
				case *ssa.MakeSlice:
					if _, isC := x.Len.(*ssa.Const); !isC {
						key := fmt.Sprintf("%s|make len %s", fnKey(fn), valueDesc(x.Len))
						if bc.proveGE(a, a.lin(x.Len), 0, getPt(in)) {
							bc.s.OK(ruleB, key, m.InstrPos(in), "make length proven >= 0")
						} else {
							bc.s.Violation(ruleB, key, m.InstrPos(in), "make([]T, %s): length not proven non-negative on every path; a negative length panics", valueDesc(x.Len))
						}
						if ll := a.lin(x.Len); !onlyLengths(ll) && m.templateIntIn(x.Len) != "" {
							keyU := fmt.Sprintf("%s|make len %s is capped", fnKey(fn), valueDesc(x.Len))
							if a.ProveValLE(ll, countCap, getPt(in)) {
								bc.s.OK(ruleB, keyU, m.InstrPos(in), "make length proven <= %d", int64(countCap))
							} else {
								bc.s.Violation(ruleB, keyU, m.InstrPos(in), "make([]T, %s): the length is not made of lengths of existing values and has no upper bound on some path (not proven <= %d); an oversized length panics (makeslice: len out of range)", valueDesc(x.Len), int64(countCap))
							}
						}
					}
				case ssa.CallInstruction:
					bc.checkCall(ruleB, fn, a, x, getPt(in))
				}
			}
		}
	}
}

func (bc *boundsChecker) checkDiv(rule string, fn *ssa.Function, a *Arith, x *ssa.BinOp, pt point) {
	m := bc.m
	key := fmt.Sprintf("%s|%s divisor %s", fnKey(fn), x.Op, valueDesc(x.Y))
	if c, ok := x.Y.(*ssa.Const); ok && c.Value != nil {
		if constant.Sign(c.Value) != 0 {
			bc.s.OKTrivial(rule, key, m.InstrPos(x), "constant non-zero divisor")
			return
		}
		bc.s.Violation(rule, key, m.InstrPos(x), "division by constant zero")
		return
	}
	// explicit y != 0 / y == 0 tests on the same value
	yk := a.canonKey(x.Y)
	for _, f := range pt.facts {
		b, ok := f.Cond.(*ssa.BinOp)
		if !ok || (b.Op != token.EQL && b.Op != token.NEQ) {
			continue
		}
		var other ssa.Value
		if a.canonKey(b.X) == yk {
			other = b.Y
		} else if a.canonKey(b.Y) == yk {
			other = b.X
		}
		if c, ok := other.(*ssa.Const); ok && c.Value != nil && c.Value.Kind() == constant.Int && constant.Sign(c.Value) == 0 {
			if (b.Op == token.NEQ) == f.Holds {
				bc.s.OK(rule, key, m.InstrPos(x), "dominated by the non-zero edge of a comparison of the divisor with 0")
				return
			}
		}
	}
	y := a.lin(x.Y)
	if bc.proveGE(a, y, 1, pt) || a.ProveValLE(y, -1, pt) {
		bc.s.OK(rule, key, m.InstrPos(x), "divisor proven non-zero by dominating comparisons")
		return
	}
	// the division of the language's own / or % operator, reached only through the operator dispatch that the case
	// evaluation decided: error on the zero side, the quotient on the other
	if cr := m.opCases(); cr.decided && cr.bad["INTEGER /"] == "" && cr.bad["INTEGER %"] == "" && cr.divSites[x] {
		only := true
		if node := m.CG.Nodes[fn]; node != nil {
			for _, e := range node.In {
				if e.Site == nil || !cr.callSites[e.Site] {
					only = false
				}
			}
			if len(node.In) == 0 {
				only = false
			}
		} else {
			only = false
		}
		if only {
			bc.s.OK(rule, key, m.InstrPos(x), "decided by cases: this division is executed only by the operator dispatch evaluated for INTEGER / and INTEGER %%, where a zero divisor takes the error side before it (every call site of %s lies on that path)", fnKey(fn))
			return
		}
	}
	bc.s.Violation(rule, key, m.InstrPos(x), "integer %s in %s: divisor %s is not a non-zero constant and no dominating test excludes 0; a zero divisor panics (runtime error: integer divide by zero)", x.Op, fnKey(fn), valueDesc(x.Y))
}

func (bc *boundsChecker) checkIndex(rule string, fn *ssa.Function, a *Arith, in ssa.Instruction, X, idx ssa.Value, pt point) {
	m := bc.m
	if _, isMap := X.Type().Underlying().(*types.Map); isMap {
		return
	}
	L := bc.lenForm(a, X)
	iv := a.lin(idx)
	// constant index into fixed-size array: decided by the type checker
	if len(L.T) == 0 && len(iv.T) == 0 {
		if iv.C >= 0 && iv.C < L.C {
			return
		}
	}
	key := fmt.Sprintf("%s|index %s[%s]", fnKey(fn), valueDesc(X), valueDesc(idx))
	lowOK := bc.proveGE(a, iv, 0, pt)
	highOK := bc.proveLE(a, iv, L, -1, pt)
	if lowOK && highOK {
		bc.s.OK(rule, key, m.InstrPos(in), "0 <= index < len proven from dominating comparisons / loop idiom")
		return
	}
	// a helper that indexes one of its parameters with another ("the caller checks i < len(args)"): every caller must
	paramIdx := func(v ssa.Value) int {
		if p, isP := v.(*ssa.Parameter); isP {
			for i, q := range fn.Params {
				if q == p {
					return i
				}
			}
		}
		return -1
	}
	if xi := paramIdx(X); xi >= 0 {
		ii := paramIdx(idx)
		_, idxConst := idx.(*ssa.Const)
		if ii >= 0 || idxConst {
			if node := m.CG.Nodes[fn]; node != nil {
				n, okAll := 0, true
				for _, e := range node.In {
					if e.Site == nil || e.Site.Common().StaticCallee() != fn || !m.InModule(e.Caller.Func) || isUserPkg(fnPkgPath(e.Caller.Func)) {
						if e.Site != nil && e.Site.Common().StaticCallee() != fn {
							okAll = false
						}
						continue
					}
					n++
					a2 := bc.ar(e.Caller.Func)
					pt2 := pointOf(e.Site)
					args := e.Site.Common().Args
					L2 := bc.lenForm(a2, args[xi])
					iv2 := iv
					if ii >= 0 {
						iv2 = a2.lin(args[ii])
					}
					if !(bc.proveGE(a2, iv2, 0, pt2) && bc.proveLE(a2, iv2, L2, -1, pt2)) {
						okAll = false
					}
				}
				if okAll && n > 0 {
					bc.s.OK(rule, key, m.InstrPos(in), "established at all %d call sites: 0 <= index < len of the arguments", n)
					return
				}
			}
		}
	}
	// a helper that indexes a field of one parameter with another parameter plus a constant (`node.Alternatives[n-1]`,
	// the caller ranges over len(node.Alternatives)+1): what is missing here is established at every call site, on
	// the same field of the argument
	if ld, isLd := X.(*ssa.UnOp); isLd && ld.Op == token.MUL {
		if fa, isFA := ld.X.(*ssa.FieldAddr); isFA {
			if xi := paramIdx(fa.X); xi >= 0 {
				// index = parameter + constant
				base, off := idx, int64(0)
				if bo, isBo := idx.(*ssa.BinOp); isBo && (bo.Op == token.ADD || bo.Op == token.SUB) {
					if k, isK := bo.Y.(*ssa.Const); isK && k.Value != nil && k.Value.Kind() == constant.Int {
						base, off = bo.X, k.Int64()
						if bo.Op == token.SUB {
							off = -off
						}
					}
				}
				if ii := paramIdx(base); ii >= 0 {
					if node := m.CG.Nodes[fn]; node != nil {
						n, okAll := 0, true
						for _, e := range node.In {
							if e.Site == nil || e.Site.Common().StaticCallee() != fn || !m.InModule(e.Caller.Func) {
								okAll = false
								continue
							}
							n++
							caller := e.Caller.Func
							args := e.Site.Common().Args
							// the same field of the argument, as the caller reads it
							var fld ssa.Value
							for _, cb := range caller.Blocks {
								for _, cin := range cb.Instrs {
									if cl, isL := cin.(*ssa.UnOp); isL && cl.Op == token.MUL {
										if cfa, isF := cl.X.(*ssa.FieldAddr); isF && cfa.Field == fa.Field && cfa.X == args[xi] {
											fld = cl
										}
									}
								}
							}
							if fld == nil {
								okAll = false
								continue
							}
							a2 := bc.ar(caller)
							pt2 := pointOf(e.Site)
							L2 := bc.lenForm(a2, fld)
							iv2 := a2.lin(args[ii]).add(linConst(off), 1)
							if !lowOK && !bc.proveGE(a2, iv2, 0, pt2) {
								okAll = false
							}
							if !highOK && !bc.proveLE(a2, iv2, L2, -1, pt2) {
								okAll = false
							}
						}
						if okAll && n > 0 {
							bc.s.OK(rule, key, m.InstrPos(in), "what is not proven here is established at all %d call sites on the same field of the argument", n)
							return
						}
					}
				}
			}
		}
	}
	// the library's binary search: `i, found := slices.BinarySearch*(s, ...)` — under found, i indexes s (and the
	// array s is the whole of)
	if ex, isEx := idx.(*ssa.Extract); isEx && ex.Index == 0 {
		if c, isC := ex.Tuple.(*ssa.Call); isC && c.Call.StaticCallee() != nil && strings.HasPrefix(fnFullName(c.Call.StaticCallee()), "slices.BinarySearch") && len(c.Call.Args) >= 1 {
			same := c.Call.Args[0] == X
			if sl, isSl := c.Call.Args[0].(*ssa.Slice); isSl && sl.Low == nil && sl.High == nil && sl.Max == nil && sl.X == X {
				same = true
			}
			if same {
				for _, f := range pt.facts {
					if fe, isFE := f.Cond.(*ssa.Extract); isFE && fe.Tuple == ex.Tuple && fe.Index == 1 && f.Holds {
						bc.s.OK(rule, key, m.InstrPos(in), "the index is what the library's binary search over this very sequence found (used under its found result)")
						return
					}
				}
			}
		}
	}
	var need []string
	if !lowOK {
		need = append(need, "index >= 0")
	}
	if !highOK {
		need = append(need, "index < len")
	}
	if t, ok := bc.trusted[key]; ok && t.covers(need) {
		if key == "token.String|index tokens[t]" {
			// premise, checked mechanically: the table covers every TokenType constant
			if okT, missing := m.tokTableComplete(); !okT {
				bc.s.Violation(rule, key, m.InstrPos(in), "token.String indexes the name table with a TokenType, and the table has no entry for %v", missing)
				return
			}
		}
		bc.s.OKTrivial(rule, key, m.InstrPos(in), "TRUSTED for %v (other parts proven): %s", need, t.reason)
		return
	}
	bc.s.Violation(rule, key, m.InstrPos(in), "index %s[%s] in %s: %s; an out-of-range index panics", valueDesc(X), valueDesc(idx), fnKey(fn), missing(lowOK, highOK, "index >= 0", "index < len"))
}

func missing(a, b bool, an, bn string) string {
	var ms []string
	if !a {
		ms = append(ms, an)
	}
	if !b {
		ms = append(ms, bn)
	}
	return "not proven on every path: " + strings.Join(ms, " and ")
}

func (bc *boundsChecker) checkSlice(rule string, fn *ssa.Function, a *Arith, x *ssa.Slice, pt point) {
	m := bc.m
	if x.Low == nil && x.High == nil && x.Max == nil {
		return
	}
	L := bc.lenForm(a, x.X)
	key := fmt.Sprintf("%s|slice %s[%s:%s]", fnKey(fn), valueDesc(x.X), optDesc(x.Low), optDesc(x.High))
	var need []string
	lo := linConst(0)
	if x.Low != nil {
		lo = a.lin(x.Low)
		if !bc.proveGE(a, lo, 0, pt) {
			need = append(need, "low >= 0")
		}
	}
	hi := L
	if x.High != nil {
		hi = a.lin(x.High)
		if !bc.proveLE(a, hi, L, 0, pt) {
			need = append(need, "high <= len")
		}
	}
	if x.Low != nil {
		if !bc.proveLE(a, lo, hi, 0, pt) {
			if x.High != nil {
				need = append(need, "low <= high")
			} else {
				need = append(need, "low <= len")
			}
		}
	} else if x.High != nil {
		if !bc.proveGE(a, hi, 0, pt) {
			need = append(need, "high >= 0")
		}
	}
	if len(need) == 0 {
		bc.s.OK(rule, key, m.InstrPos(x), "0 <= low <= high <= len proven from dominating comparisons")
		return
	}
	if t, ok := bc.trusted[key]; ok && t.covers(need) {
		bc.s.OKTrivial(rule, key, m.InstrPos(x), "TRUSTED for %v (other parts proven): %s", need, t.reason)
		return
	}
	// the same trusted argument, recognised by construct instead of by function name: in the lexer package,
	// l.input[snapshot of l.pos : l.pos] (the text a scanner went over, wherever that scanner now lives)
	if shortPkg(fnPkgPath(fn)) == "lexer" && x.Low != nil && x.High != nil &&
		strings.HasSuffix(fieldPathOf(x.X), ".input") && fieldPathOf(x.Low) == ".pos" && fieldPathOf(x.High) == ".pos" {
		t := trustedPart{[]string{"high <= len", "low <= high"}, lexerPosInvariant}
		if t.covers(need) {
			bc.s.OKTrivial(rule, key, m.InstrPos(x), "TRUSTED for %v (other parts proven): %s", need, t.reason)
			return
		}
	}
	// ... and l.input[snapshot of l.pos : l.pos+1] (the text up to and including the current character) taken directly
	// under a test of the current character that fails for the zero byte: char != 0 means pos < len(input)
	if shortPkg(fnPkgPath(fn)) == "lexer" && x.Low != nil && x.High != nil &&
		strings.HasSuffix(fieldPathOf(x.X), ".input") && fieldPathOf(x.Low) == ".pos" {
		if add, isAdd := x.High.(*ssa.BinOp); isAdd && add.Op == token.ADD && fieldPathOf(add.X) == ".pos" {
			if k, isK := add.Y.(*ssa.Const); isK && k.Value != nil && k.Int64() == 1 {
				b := x.Block()
				guarded := false
				if len(b.Preds) == 1 {
					p := b.Preds[0]
					pc := &progressCtx{m: m}
					for _, f := range edgeFact(p, b) {
						if kn, val := evalCond(f.Cond, pc.lexEval(0), b); kn && val != f.Holds {
							guarded = true // with char == 0 this edge is not taken
						}
					}
					// nothing is read between the test and the slice
					for _, in := range b.Instrs {
						if in == ssa.Instruction(x) {
							break
						}
						if c, isC := in.(ssa.CallInstruction); isC {
							if sc := c.Common().StaticCallee(); sc != nil && m.InModule(sc) && shortPkg(fnPkgPath(sc)) == "lexer" {
								if sum := m.Effects().sums[sc]; sum == nil || len(sum.writes) > 0 {
									guarded = false
								}
							}
						}
					}
				}
				t := trustedPart{[]string{"high <= len", "low <= high"}, lexerPosInvariant + "; the slice is taken directly under a test of l.char that fails for 0, where pos < len(input)"}
				if guarded && t.covers(need) {
					bc.s.OKTrivial(rule, key, m.InstrPos(x), "TRUSTED for %v (other parts proven): %s", need, t.reason)
					return
				}
			}
		}
	}
	bc.s.Violation(rule, key, m.InstrPos(x), "slice expression %s[%s:%s] in %s: not proven on every path: %s; out-of-range bounds panic",
		valueDesc(x.X), optDesc(x.Low), optDesc(x.High), fnKey(fn), strings.Join(need, ", "))
}

// countCap: the largest count accepted as "capped" for an allocation whose size is a count taken from a value.
const countCap = 1<<31 - 1

// templateIntIn: does v derive from an integer or float held in a template value (the Value field of object.Int /
// object.Float: literals of the template, numbers of the data, results of arithmetic)? Followed through conversions,
// arithmetic, phis, min/max, parameters (to what the callers pass) and the results of module functions. Returns a
// description of the source, "" when none is found.
func (m *Model) templateIntIn(v ssa.Value) string {
	seen := map[ssa.Value]bool{}
	var walk func(v ssa.Value, d int) string
	walk = func(v ssa.Value, d int) string {
		if v == nil || seen[v] || d > 12 {
			return ""
		}
		seen[v] = true
		switch x := v.(type) {
		case *ssa.Convert:
			return walk(x.X, d+1)
		case *ssa.ChangeType:
			return walk(x.X, d+1)
		case *ssa.BinOp:
			if r := walk(x.X, d+1); r != "" {
				return r
			}
			return walk(x.Y, d+1)
		case *ssa.Phi:
			for _, e := range x.Edges {
				if r := walk(e, d+1); r != "" {
					return r
				}
			}
		case *ssa.UnOp:
			if x.Op == token.MUL {
				if fa, ok := x.X.(*ssa.FieldAddr); ok && fieldName(fa.X.Type(), fa.Field) == "Value" {
					tn := derefTypeString(fa.X.Type())
					if strings.HasSuffix(tn, "object.Int") || strings.HasSuffix(tn, "object.Float") {
						return tn[strings.LastIndex(tn, "/")+1:] + ".Value"
					}
				}
				return ""
			}
			return walk(x.X, d+1)
		case *ssa.Extract:
			return walk(x.Tuple, d+1)
		case *ssa.Parameter:
			for _, r := range m.resolveUp(x, nil, 0) {
				if _, still := r.(*ssa.Parameter); still {
					continue
				}
				if s := walk(r, d+1); s != "" {
					return s
				}
			}
		case *ssa.Call:
			if b, isB := x.Call.Value.(*ssa.Builtin); isB && (b.Name() == "max" || b.Name() == "min") {
				for _, a := range x.Call.Args {
					if r := walk(a, d+1); r != "" {
						return r
					}
				}
				return ""
			}
			if sc := x.Call.StaticCallee(); sc != nil && m.InModule(sc) && sc.Blocks != nil {
				for _, b := range sc.Blocks {
					if ret, ok := b.Instrs[len(b.Instrs)-1].(*ssa.Return); ok {
						for _, rv := range ret.Results {
							if isInteger(rv.Type()) {
								if r := walk(rv, d+1); r != "" {
									return r
								}
							}
						}
					}
				}
			}
		}
		return ""
	}
	return walk(v, 0)
}

// onlyLengths: the linear form is a constant plus lengths of existing values (len:, buflen: atoms) with positive
// coefficients — such a size is bounded by memory that is already allocated.
func onlyLengths(l Lin) bool {
	for k, c := range l.T {
		if c == 0 {
			continue
		}
		if !(strings.HasPrefix(k, "len:") || strings.HasPrefix(k, "buflen:")) {
			return false
		}
	}
	return true
}

func optDesc(v ssa.Value) string {
	if v == nil {
		return ""
	}
	return valueDesc(v)
}

// checkCall: library calls that panic on out-of-range counts.
func (bc *boundsChecker) checkCall(rule string, fn *ssa.Function, a *Arith, site ssa.CallInstruction, pt point) {
	m := bc.m
	com := site.Common()
	sc := com.StaticCallee()
	if sc == nil {
		return
	}
	full := fnFullName(sc)
	switch full {
	case "strings.Repeat":
		n := com.Args[1]
		key := fmt.Sprintf("%s|strings.Repeat count %s", fnKey(fn), valueDesc(n))
		if bc.proveGE(a, a.lin(n), 0, pt) {
			bc.s.OK(rule, key, m.InstrPos(site), "count proven >= 0")
		} else {
			bc.s.Violation(rule, key, m.InstrPos(site), "strings.Repeat(_, %s) in %s: count not proven non-negative on every path; a negative count panics", valueDesc(n), fnKey(fn))
		}
		// an oversized count panics as well ("Repeat output length overflow", or makeslice: len out of range in the
		// builder): the count is capped — proven at most countCap on every path, or made of lengths of existing values
		keyU := fmt.Sprintf("%s|strings.Repeat count %s is capped", fnKey(fn), valueDesc(n))
		if src := m.templateIntIn(n); src == "" {
			bc.s.OK(rule, keyU, m.InstrPos(site), "the count does not derive from an integer of the template or the data (lengths, constants, nesting depth)")
		} else if onlyLengths(a.lin(n)) || a.ProveValLE(a.lin(n), countCap, pt) {
			bc.s.OK(rule, keyU, m.InstrPos(site), "count (from %s) proven <= %d", src, int64(countCap))
		} else {
			bc.s.Violation(rule, keyU, m.InstrPos(site), "strings.Repeat(_, %s) in %s: the count has no upper bound on some path (not proven <= %d): a count taken from the template or the data that makes the result longer than the address space panics (strings: Repeat output length overflow / makeslice: len out of range)", valueDesc(n), fnKey(fn), int64(countCap))
		}
	case "(*bytes.Buffer).Truncate":
		n := com.Args[1]
		key := fmt.Sprintf("%s|Buffer.Truncate %s", fnKey(fn), valueDesc(n))
		L := a.bufLen(com.Args[0], site)
		nl := a.lin(n)
		lowOK := bc.proveGE(a, nl, 0, pt)
		highOK := bc.proveLE(a, nl, L, 0, pt)
		if lowOK && highOK {
			bc.s.OK(rule, key, m.InstrPos(site), "0 <= n <= Len() proven")
		} else {
			bc.s.Violation(rule, key, m.InstrPos(site), "(*bytes.Buffer).Truncate(%s) in %s: %s; Truncate panics outside [0, Len()]", valueDesc(n), fnKey(fn), missing(lowOK, highOK, "n >= 0", "n <= Len()"))
		}
	}
}

func fnFullName(fn *ssa.Function) string {
	if o := fn.Origin(); o != nil && o != fn {
		return fnFullName(o) // an instance of a generic function is named like the generic (slices.Sort)
	}
	if fn.Pkg == nil {
		if o := fn.Object(); o != nil && o.Pkg() != nil {
			return o.Pkg().Path() + "." + fn.Name()
		}
		return fn.Name()
	}
	if recv := fn.Signature.Recv(); recv != nil {
		return "(" + types.TypeString(recv.Type(), nil) + ")." + fn.Name()
	}
	return fn.Pkg.Pkg.Path() + "." + fn.Name()
}

const lexerPosInvariant = "lexer position invariant, outside the linear engine: Lexer.char/pos/readPos are written only by readChar (checked by R-TOKPOS who-may-write), readChar sets char != 0 only when pos < len(input), and every readChar between the snapshot and the slice runs under a loop condition that is false at char == 0 (checked by R-PROGRESS), so snapshot <= pos <= len(input)"

// trustedBounds: sub-obligations accepted without proof. One entry per named construct.
var trustedBounds = map[string]trustedPart{
	"lexer.(*Lexer).prevChar|index l.input[(l.pos-1)]":              {[]string{"index < len"}, lexerPosInvariant + "; prevChar is only reached with char != 0 (readHTML loop condition, '@' test in isDirectiveToken)"},
	"lexer.(*Lexer).readIdentifier|slice l.input[l.pos:l.pos]":      {[]string{"high <= len", "low <= high"}, lexerPosInvariant},
	"lexer.(*Lexer).readNumber|slice l.input[l.pos:l.pos]":          {[]string{"high <= len", "low <= high"}, lexerPosInvariant},
	"lexer.(*Lexer).readString|slice l.input[l.pos:l.pos]":          {[]string{"high <= len", "low <= high"}, lexerPosInvariant},
	"object.(*Array).Dump|slice String(out)[(len(String(out))-8):]": {[]string{"low >= 0"}, "the buffer always starts with the constant 60-byte header written unconditionally above, so len(res) >= 8"},
	"lexer.(*Lexer).skipComment|slice l.input[l.pos:]":              {[]string{"low <= len"}, lexerPosInvariant + "; the slice is taken under the loop condition l.char != 0, where pos < len(input)"},
	"token.String|index tokens[t]":                                  {[]string{"index >= 0", "index < len"}, "every value of type TokenType is one of the iota constants (they only come from constants and the token tables), and R-TOKTABLE checks on every run that the table has an entry for each constant"},
}

// RunDivOnly: only the R-DIVGUARD obligations.
func (bc *boundsChecker) RunDivOnly(rule string, fns []*ssa.Function) {
	for _, fn := range fns {
		a := bc.ar(fn)
		for _, b := range fn.Blocks {
			for _, in := range b.Instrs {
				if x, ok := in.(*ssa.BinOp); ok && (x.Op == token.QUO || x.Op == token.REM) && isInteger(x.X.Type()) {
					bc.checkDiv(rule, fn, a, x, pointOf(in))
				}
			}
		}
	}
}
