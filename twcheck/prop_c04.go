package main

import "golang.org/x/tools/go/ssa"

func init() {
	register(&PropInfo{
		ID:    "C04",
		Title: "Variables are block scoped, type stable, and 'loop' is reserved",
		Rules: []string{
			"R-ERRDROP: every error-typed result on the render path (in particular of Env.Set) is consumed",
			"R-SCOPE: every nested block (@if branches, loop bodies and their @else, component block) is evaluated in NewEnclosedEnv(env); only NewEnv/Set/SetLoopVar write a scope and only their own; Set's store is dominated by the reserved-name test and the chain-wide type test; Get falls back to the enclosing scope exactly when the name is absent; the loop object is bound on the loop's own scope; data is bound through Set",
		},
		Decided:     "TODO",
		NotDecided:  "TODO",
		Assumptions: trustedBase,
		Run: func(m *Model, s *Sink) {
			r := m.Roots()
			var fns []*ssa.Function
			for _, fn := range m.reachableFns(r.Render) {
				p := shortPkg(fnPkgPath(fn))
				if p == "evaluator" || p == "object" {
					fns = append(fns, fn)
				}
			}
			m.RunErrDrop(s, "R-ERRDROP", fns)
			m.RunScope(s, "R-SCOPE")
			s.RequireMin("R-SCOPE", 14, "8 block evaluations in fresh scopes, component binding, store writers, Set checks, Get fallback, loop object scope, data binding")
		},
	})
}
