package main

import "golang.org/x/tools/go/ssa"

func init() {
	register(&PropInfo{
		ID:    "C04",
		Title: "Variables are block scoped, type stable, and 'loop' is reserved",
		Rules: []string{
			"R-ERRDROP: every error-typed result on the render path (in particular of Env.Set) is consumed",
		},
		Decided:     "TODO",
		NotDecided:  "TODO",
		Assumptions: trustedBase,
		Run: func(m *Model, s *Sink) {
			r := m.Roots()
			var fns []*ssa.Function
			for _, fn := range m.reachableFns(r.Render) {
				p := shortPkg(fnPkgPath(fn))
				if p == "evaluator" || p == "object" {
					fns = append(fns, fn)
				}
			}
			m.RunErrDrop(s, "R-ERRDROP", fns)
		},
	})
}
