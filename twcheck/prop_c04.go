package main

import "golang.org/x/tools/go/ssa"

func init() {
	register(&PropInfo{
		ID:    "C04",
		Title: "Variables are block scoped, type stable, and 'loop' is reserved",
		Rules: []string{
			"R-SHARED-RW: no package-level variable is both written and read on the render paths (state kept between calls: a shared environment for data-less renders, a cache of converted data or parsed programs)",
			"R-ERRDROP: every error-typed result on the render path (in particular of Env.Set) is consumed",
			"R-SCOPE: every nested block (@if branches, loop bodies and their @else, component block) is evaluated in NewEnclosedEnv(env); only NewEnv/Set/SetLoopVar write a scope and only their own; Set's store is dominated by the reserved-name test and the chain-wide type test; Get falls back to the enclosing scope exactly when the name is absent; the loop object is bound on the loop's own scope; data is bound through Set",
		},
		Decided:     "TODO",
		NotDecided:  "TODO",
		Assumptions: trustedBase,
		Run: func(m *Model, s *Sink) {
			m.RunSharedWrites(s, "R-SHARED-RW", m.Roots().Render, "history") // what one render leaves behind must not reach the next (a shared environment for data-less calls, a cache of bound data, a memo of parsed strings)
			r := m.Roots()
			var fns []*ssa.Function
			for _, fn := range m.reachableFns(r.Render) {
				p := shortPkg(fnPkgPath(fn))
				if p == "evaluator" || p == "object" {
					fns = append(fns, fn)
				}
			}
			m.RunErrDrop(s, "R-ERRDROP", fns)
			m.RunScope(s, "R-SCOPE")
			m.RunAssignCases(s, "R-SCOPE") // an assignment binds what was evaluated; a variable keeps its type
			s.RequireMin("R-SCOPE", 14, "8 block evaluations in fresh scopes, component binding, store writers, Set checks, Get fallback, loop object scope, data binding")
		},
	})
}
