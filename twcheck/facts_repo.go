package main

// facts_repo.go — the repository model: tables read from the type-checked
// source on every run (object kinds, builtin table, AST node types, ...).

import (
	"go/ast"
	"go/constant"
	"go/token"
	"go/types"
	"sort"
	"strings"

	"golang.org/x/tools/go/ssa"
)

type BuiltinEntry struct {
	Kind string // "STRING"
	Name string
	Fn   *ssa.Function
	Pos  token.Pos
}

type RepoFacts struct {
	KindOfType map[string]string     // "*object.Int" (types.TypeString w/ short pkg) -> "INTEGER"
	TypeOfKind map[string]types.Type // "INTEGER" -> *object.Int
	ObjTypes   []types.Type          // pointer types implementing object.Object
	Builtins   []BuiltinEntry
	BuiltinOf  map[*ssa.Function][]BuiltinEntry
	Problems   []string
}

func (m *Model) Facts() *RepoFacts {
	if m.facts != nil {
		return m.facts
	}
	f := &RepoFacts{KindOfType: map[string]string{}, TypeOfKind: map[string]types.Type{}, BuiltinOf: map[*ssa.Function][]BuiltinEntry{}}
	m.facts = f
	// object kinds
	op := m.SSA[fullPkg("object")]
	if op == nil {
		f.Problems = append(f.Problems, "package object not found")
		return f
	}
	objIface, _ := op.Pkg.Scope().Lookup("Object").(*types.TypeName)
	if objIface == nil {
		f.Problems = append(f.Problems, "object.Object not found")
		return f
	}
	it := objIface.Type().Underlying().(*types.Interface)
	var names []string
	for _, n := range op.Pkg.Scope().Names() {
		names = append(names, n)
	}
	sort.Strings(names)
	for _, n := range names {
		tn, ok := op.Pkg.Scope().Lookup(n).(*types.TypeName)
		if !ok || types.IsInterface(tn.Type()) {
			continue
		}
		pt := types.NewPointer(tn.Type())
		if !types.Implements(pt, it) {
			continue
		}
		f.ObjTypes = append(f.ObjTypes, pt)
		fn := m.Method("object", n, "Type")
		if fn == nil {
			f.Problems = append(f.Problems, "no Type() for object."+n)
			continue
		}
		k, ok := constReturn(fn)
		if !ok {
			f.Problems = append(f.Problems, "object."+n+".Type() does not return a single constant")
			continue
		}
		f.KindOfType[typeStr(pt)] = k
		if _, dup := f.TypeOfKind[k]; dup {
			f.Problems = append(f.Problems, "two object types share kind "+k)
		}
		f.TypeOfKind[k] = pt
	}
	// builtin table: composite literal of evaluator.functions
	ep := m.ByPath[fullPkg("evaluator")]
	if ep == nil {
		f.Problems = append(f.Problems, "package evaluator not found")
		return f
	}
	found := false
	for _, file := range ep.Syntax {
		for _, d := range file.Decls {
			gd, ok := d.(*ast.GenDecl)
			if !ok || gd.Tok != token.VAR {
				continue
			}
			for _, sp := range gd.Specs {
				vs := sp.(*ast.ValueSpec)
				for i, name := range vs.Names {
					if canonVarName("evaluator", name.Name) != "functions" || i >= len(vs.Values) {
						continue
					}
					found = true
					outer, ok := vs.Values[i].(*ast.CompositeLit)
					if !ok {
						f.Problems = append(f.Problems, "evaluator.functions is not a composite literal")
						continue
					}
					for _, e := range outer.Elts {
						kv, ok := e.(*ast.KeyValueExpr)
						if !ok {
							continue
						}
						kind := constStr(ep.TypesInfo, kv.Key)
						inner, ok := kv.Value.(*ast.CompositeLit)
						if !ok || kind == "" {
							f.Problems = append(f.Problems, "functions: unrecognised outer entry at "+m.Pos(kv.Pos()))
							continue
						}
						for _, ie := range inner.Elts {
							ikv, ok := ie.(*ast.KeyValueExpr)
							if !ok {
								continue
							}
							fname := constStr(ep.TypesInfo, ikv.Key)
							fn := builtinFnOf(m, ep.TypesInfo, ikv.Value)
							if fname == "" || fn == nil {
								f.Problems = append(f.Problems, "functions: unrecognised entry at "+m.Pos(ikv.Pos()))
								continue
							}
							be := BuiltinEntry{Kind: kind, Name: fname, Fn: fn, Pos: ikv.Pos()}
							f.Builtins = append(f.Builtins, be)
							f.BuiltinOf[fn] = append(f.BuiltinOf[fn], be)
						}
					}
				}
			}
		}
	}
	if !found || len(f.Builtins) == 0 {
		// not one nested literal (e.g. assembled from per-type tables): take what the package initialiser builds
		f.Builtins, f.BuiltinOf = nil, map[*ssa.Function][]BuiltinEntry{}
		var probs []string
		for _, p := range f.Problems {
			if !strings.HasPrefix(p, "functions:") && !strings.HasPrefix(p, "evaluator.functions") {
				probs = append(probs, p)
			}
		}
		f.Problems = probs
		okEval := false
		if outer, isM := m.evalGlobals("evaluator")["functions"].(*iMap); isM && outer.vals != nil && m.globalMapWritten("evaluator", "functions") == "" {
			okEval = true
			for ks, iv := range outer.vals {
				kc := outer.kval[ks]
				inner, isInner := iv.(*iMap)
				if kc == nil || kc.Kind() != constant.String || !isInner || inner.vals == nil {
					okEval = false
					break
				}
				kind := constant.StringVal(kc)
				for nks, bv := range inner.vals {
					nkc := inner.kval[nks]
					st, isSt := bv.(*iStruct)
					if nkc == nil || nkc.Kind() != constant.String || !isSt {
						okEval = false
						break
					}
					var fn *ssa.Function
					stt := st.typ.Underlying().(*types.Struct)
					for i := 0; i < stt.NumFields(); i++ {
						if stt.Field(i).Name() == "Fn" {
							if cl, isCl := st.fields[i].(*iClosure); isCl {
								fn = cl.fn
							}
						}
					}
					if fn == nil {
						okEval = false
						break
					}
					be := BuiltinEntry{Kind: kind, Name: constant.StringVal(nkc), Fn: fn, Pos: fn.Pos()}
					f.Builtins = append(f.Builtins, be)
					f.BuiltinOf[fn] = append(f.BuiltinOf[fn], be)
				}
			}
			sort.Slice(f.Builtins, func(i, j int) bool {
				if f.Builtins[i].Kind != f.Builtins[j].Kind {
					return f.Builtins[i].Kind < f.Builtins[j].Kind
				}
				return f.Builtins[i].Name < f.Builtins[j].Name
			})
		}
		if !okEval || len(f.Builtins) == 0 {
			f.Problems = append(f.Problems, "evaluator.functions table not found (neither a nested literal nor computable from the package initialiser)")
		}
	}
	return f
}

func typeStr(t types.Type) string {
	return types.TypeString(t, func(p *types.Package) string { return shortPkg(p.Path()) })
}

func constStr(info *types.Info, e ast.Expr) string {
	if tv, ok := info.Types[e]; ok && tv.Value != nil && tv.Value.Kind() == constant.String {
		return constant.StringVal(tv.Value)
	}
	return ""
}

// builtinFnOf resolves `{Fn: strLenFunc}` / `&object.Builtin{Fn: f}` to the SSA function.
func builtinFnOf(m *Model, info *types.Info, e ast.Expr) *ssa.Function {
	if u, ok := e.(*ast.UnaryExpr); ok {
		e = u.X
	}
	cl, ok := e.(*ast.CompositeLit)
	if !ok {
		return nil
	}
	for _, el := range cl.Elts {
		var v ast.Expr = el
		if kv, ok := el.(*ast.KeyValueExpr); ok {
			if id, ok := kv.Key.(*ast.Ident); !ok || id.Name != "Fn" {
				continue
			}
			v = kv.Value
		}
		if id, ok := v.(*ast.Ident); ok {
			if fo, ok := info.Uses[id].(*types.Func); ok {
				return m.Prog.FuncValue(fo)
			}
		}
	}
	return nil
}

// constReturn: the function returns one and the same string constant on all paths.
func constReturn(fn *ssa.Function) (string, bool) {
	val := ""
	n := 0
	for _, b := range fn.Blocks {
		for _, in := range b.Instrs {
			r, ok := in.(*ssa.Return)
			if !ok {
				continue
			}
			if len(r.Results) != 1 {
				return "", false
			}
			c, ok := r.Results[0].(*ssa.Const)
			if !ok || c.Value == nil || c.Value.Kind() != constant.String {
				return "", false
			}
			s := constant.StringVal(c.Value)
			if n > 0 && s != val {
				return "", false
			}
			val = s
			n++
		}
	}
	return val, n > 0
}

func constOfValue(v ssa.Value) (string, bool) {
	c, ok := v.(*ssa.Const)
	if !ok || c.Value == nil || c.Value.Kind() != constant.String {
		return "", false
	}
	return constant.StringVal(c.Value), true
}

func inPkg(fn *ssa.Function, short string) bool {
	return fnPkgPath(fn) == fullPkg(short)
}

// userPackages hold user-level code (LSP tooling, REPL, example program): not on any render/load path of the library.
func isUserPkg(path string) bool {
	s := shortPkg(path)
	return s == "repl" || s == "textwire/example" || s == "lsp" || strings.HasPrefix(s, "lsp/")
}
