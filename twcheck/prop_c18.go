package main

import "golang.org/x/tools/go/ssa"

func init() {
	register(&PropInfo{
		ID:    "C18",
		Title: "Templates are addressable by relative name; a bad file fails loading cleanly",
		Rules: []string{
			"R-LOADALL: in the loader's loop a program is registered only after both linkers ran (must-pass-through), and a pass ends by registering, by failing or over the HasReserveStmt() edge",
			"R-LAYOUT (tables / alias): Reserves, Inserts and Components of a parsed program are written by the parser only; ~ expands only as the first character",
			"R-FORMAT: every printf-like call (fmt family, and the module functions that hand a parameter on as a format: fail.New, newError, ...) gets a constant format, or the caller's own format parameter",
			"R-NILERR: every nil result of a parse function is preceded by a recorded error (a truncated file is not loaded silently)",
			"R-LOADREC: the loader functions of the root package do not call each other in a cycle (loading is bounded by the files and the uses in them)",
			"R-PATHAPI: the template extension is only tested/removed as a suffix and the directory only joined, walked, normalised or relativised (no substring functions); a file is registered only under HasSuffix(path, ext) and !IsDir; names come from filepath.Rel + TrimSuffix; NewTemplate pairs every error with a nil Template; layouts are not registered; an unknown name ends in template-not-found; EvaluateFile passes the unmodified content to EvaluateString",
			"R-ERRDROP: no error returned by the loader's callees is discarded",
			"R-PROGRESS/R-DELIM/R-BOUNDS/R-ASSERT/R-PANICCALL on the loader's own code and the lexer/parser it drives (no hang or panic while loading)",
		},
		Decided:     "TODO",
		NotDecided:  "TODO",
		Assumptions: trustedBase,
		Run: func(m *Model, s *Sink) {
			m.RunLoadAll(s, "R-LOADALL") // no file of the directory is skipped; every program is linked before it is registered
			m.RunLayout(s, "R-LAYOUT")
			m.RunProgramTables(s, "R-LAYOUT")                                            // a file is a layout because it declares reserves, also after linking
			m.RunFormat(s, "R-FORMAT", m.reachableFns(m.Roots().Load, m.Roots().Render)) // no text of a template, a path or an error is used as a printf format
			m.RunNilErr(s, "R-NILERR")                                                   // a file whose parse gives up must have recorded an error, or it is loaded as if it were complete
			m.RunLoadRecursion(s, "R-LOADREC")
			m.RunLoadErr(s, "R-LOADERR")
			m.RunCauseKept(s, "R-LOADERR") // the text of a file error (which names the file) is kept
			m.RunPathAPI(s, "R-PATHAPI")
			r := m.Roots()
			var loadFns []*ssa.Function
			for _, fn := range m.reachableFns(r.Load) {
				p := shortPkg(fnPkgPath(fn))
				if p == "textwire" || p == "ast" {
					loadFns = append(loadFns, fn)
				}
			}
			m.RunErrDrop(s, "R-ERRDROP", loadFns)
			all := m.reachableFns(r.Load)
			m.newAssertChecker(s).Run("R-ASSERT", all)
			m.newBoundsChecker(s).Run("R-BOUNDS", "R-DIVGUARD", all)
			m.RunPanicCall(s, "R-PANICCALL", all)
			m.RunNilRet(s, "R-NILRET", all)
			m.RunNilField(s, "R-NILFIELD", all)
			m.RunProgress(s, "R-PROGRESS")
			m.RunDelim(s, "R-DELIM")
			s.RequireMin("R-PATHAPI", 10, "ext/dir call sites, registration, name function, 3 returns, layouts, lookup, EvaluateFile")
		},
	})
}
