package main

// rule_output.go — R-OUTPUT (C05, C10): what the render API returns is what the evaluation printed. The string result of
// EvaluateString and Template.String is, on every return, a constant (the empty string next to an error) or the result
// of String() on the evaluated object — possibly through a helper of the package whose own string result is that. A
// pass over the finished text (strings.ToValidUTF8, a trim, a replace) changes bytes of text and of literals alike.

import (
	"go/types"

	"golang.org/x/tools/go/ssa"
)

func (m *Model) RunOutputUnchanged(s *Sink, rule string) {
	objT := m.namedType("object", "Object")
	var ok func(v ssa.Value, d int) (bool, string)
	ok = func(v ssa.Value, d int) (bool, string) {
		if d > 3 {
			return false, "too many steps"
		}
		switch x := v.(type) {
		case *ssa.Const:
			return true, ""
		case *ssa.Phi:
			for _, e := range x.Edges {
				if good, why := ok(e, d+1); !good {
					return false, why
				}
			}
			return true, ""
		case *ssa.Call:
			if x.Call.IsInvoke() && x.Call.Method.Name() == "String" && objT != nil && types.Identical(x.Call.Value.Type(), objT) {
				return true, ""
			}
			sc := x.Call.StaticCallee()
			if sc == nil {
				return false, "the result of a dynamic call"
			}
			if sc.Name() == "String" && sc.Signature.Recv() != nil && shortPkg(fnPkgPath(sc)) == "object" {
				return true, ""
			}
			if m.InModule(sc) && sc.Blocks != nil && shortPkg(fnPkgPath(sc)) == "textwire" {
				// a helper of the root package: its own string result
				idx := -1
				for i := 0; i < sc.Signature.Results().Len(); i++ {
					if isStringT(sc.Signature.Results().At(i).Type()) {
						idx = i
						break
					}
				}
				if idx < 0 {
					return false, "a helper without a string result"
				}
				for _, b := range sc.Blocks {
					if ret, isRet := b.Instrs[len(b.Instrs)-1].(*ssa.Return); isRet {
						if good, why := ok(retSource(ret, idx), d+1); !good {
							return false, why
						}
					}
				}
				return true, ""
			}
			return false, "the result of " + fnFullName(sc)
		case *ssa.Extract:
			if c, isC := x.Tuple.(*ssa.Call); isC && c.Call.StaticCallee() != nil && m.InModule(c.Call.StaticCallee()) && shortPkg(fnPkgPath(c.Call.StaticCallee())) == "textwire" {
				sc := c.Call.StaticCallee()
				for _, b := range sc.Blocks {
					if ret, isRet := b.Instrs[len(b.Instrs)-1].(*ssa.Return); isRet && x.Index < len(ret.Results) {
						if good, why := ok(retSource(ret, x.Index), d+1); !good {
							return false, why
						}
					}
				}
				return true, ""
			}
			return false, "a component of " + valueDesc(x.Tuple)
		}
		return false, valueDesc(v)
	}
	n := 0
	for _, fn := range []*ssa.Function{m.PkgFunc("textwire", "EvaluateString"), m.Method("textwire", "Template", "String")} {
		if fn == nil || fn.Blocks == nil {
			continue
		}
		n++
		key := fnKey(fn) + "|returns what the evaluation printed"
		bad := ""
		for _, b := range fn.Blocks {
			ret, isRet := b.Instrs[len(b.Instrs)-1].(*ssa.Return)
			if !isRet || len(ret.Results) == 0 || !isStringT(ret.Results[0].Type()) {
				continue
			}
			if good, why := ok(retSource(ret, 0), 0); !good && bad == "" {
				bad = why + " at " + m.InstrPos(ret)
			}
		}
		if bad != "" {
			s.Violation(rule, key, m.Pos(fn.Pos()), "%s returns %s instead of the String() of the evaluated object: the finished text goes through another function, which changes bytes of text outside {{ }} and of string literals alike (invalid UTF-8 replaced, blanks trimmed, ...)", fnKey(fn), bad)
		} else {
			s.OK(rule, key, m.Pos(fn.Pos()), "every returned string is a constant or the String() of the evaluated object (directly or through a helper of the package)")
		}
	}
	if n < 2 {
		s.Undecided(rule, "render API", "-", "EvaluateString / Template.String not found")
	}
}
