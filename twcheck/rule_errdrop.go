package main

// rule_errdrop.go — R-ERRDROP: no error-typed result (error, *fail.Error,
// *object.Error-carrying Object from Eval) is discarded.

import (
	"fmt"
	"go/token"
	"go/types"
	"strings"

	"golang.org/x/tools/go/ssa"
)

// errIgnorable: callees whose error result is documented to be always nil or is intentionally unused.
var errIgnorable = map[string]string{
	"fmt.Fprint":                     "write to the caller's writer; its failure is the caller's concern (Response has no other channel)",
	"fmt.Fprintf":                    "see fmt.Fprint",
	"fmt.Fprintln":                   "see fmt.Fprint",
	"fmt.Println":                    "console output of the REPL/example",
	"fmt.Printf":                     "console output",
	"fmt.Print":                      "console output",
	"(*bytes.Buffer).WriteString":    "documented: err is always nil",
	"(*bytes.Buffer).WriteByte":      "documented: err is always nil",
	"(*bytes.Buffer).Write":          "documented: err is always nil",
	"(*bytes.Buffer).WriteRune":      "documented: err is always nil",
	"(*strings.Builder).WriteString": "documented: err is always nil",
	"(*strings.Builder).WriteByte":   "documented: err is always nil",
	"(*strings.Builder).WriteRune":   "documented: err is always nil",
}

func isErrorLike(t types.Type) bool {
	if t == nil {
		return false
	}
	if types.Identical(t, types.Universe.Lookup("error").Type()) {
		return true
	}
	s := types.TypeString(t, nil)
	return strings.HasSuffix(s, "/fail.Error") && strings.HasPrefix(s, "*")
}

// RunErrDrop checks every call in fns whose callee has an error-like result.
func (m *Model) RunErrDrop(s *Sink, rule string, fns []*ssa.Function) {
	for _, fn := range fns {
		for _, b := range fn.Blocks {
			for _, in := range b.Instrs {
				var call *ssa.Call
				switch x := in.(type) {
				case *ssa.Call:
					call = x
				case *ssa.Defer, *ssa.Go:
					continue
				default:
					continue
				}
				sig := call.Call.Signature()
				if sig == nil {
					continue
				}
				res := sig.Results()
				for i := 0; i < res.Len(); i++ {
					if !isErrorLike(res.At(i).Type()) {
						continue
					}
					name := calleeName(&call.Call)
					full := name
					if sc := call.Call.StaticCallee(); sc != nil {
						full = fnFullName(sc)
					}
					if why, ok := errIgnorable[full]; ok {
						s.OKTrivial(rule, fmt.Sprintf("%s|error of %s (allow-listed)", fnKey(fn), name), m.InstrPos(call), "%s", why)
						continue
					}
					key := fmt.Sprintf("%s|error result #%d of %s is consumed", fnKey(fn), i, name)
					var ev ssa.Value = call
					if res.Len() > 1 {
						ev = nil
						for _, r := range *call.Referrers() {
							if ex, ok := r.(*ssa.Extract); ok && ex.Index == i {
								ev = ex
							}
						}
					}
					used := false
					if ev != nil && ev.Referrers() != nil {
						for _, r := range *ev.Referrers() {
							if _, dbg := r.(*ssa.DebugRef); !dbg {
								used = true
							}
						}
					}
					// an error of the module's own functions (Env.Set, ...) that is only ever compared with nil: the failure is
					// noticed and then dropped — what the callee refused is not reported
					if sc := call.Call.StaticCallee(); used && sc != nil && m.InModule(sc) {
						onlyTested := true
						for _, r := range *ev.Referrers() {
							switch x := r.(type) {
							case *ssa.DebugRef:
							case *ssa.BinOp:
								if !((x.Op == token.EQL || x.Op == token.NEQ) && (isNilConst(x.X) || isNilConst(x.Y))) {
									onlyTested = false
								}
							default:
								onlyTested = false
							}
						}
						k2 := fmt.Sprintf("%s|error result #%d of %s is reported when it is not nil", fnKey(fn), i, name)
						if onlyTested {
							s.Violation(rule, k2, m.InstrPos(call), "%s only compares the %s returned by %s with nil and never looks at it again: the failure changes the control flow (a loop is left, a statement skipped) but is not reported, so the render succeeds with a part of the page silently missing", fnKey(fn), res.At(i).Type(), full)
						} else {
							s.OK(rule, k2, m.InstrPos(call), "the error value itself is used (its message, handed on, returned)")
						}
					}
					if used {
						s.OK(rule, key, m.InstrPos(call), "result is tested, returned or passed on")
					} else {
						s.Violation(rule, key, m.InstrPos(call), "%s discards the %s returned by %s: a failure there is silently ignored and evaluation continues with whatever state was left", fnKey(fn), res.At(i).Type(), full)
					}
				}
			}
		}
	}
}
