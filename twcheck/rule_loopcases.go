package main

// rule_loopcases.go — R-LOOP decided by case evaluation: Eval is run on an abstract @each / @for statement. The array
// expression, the condition, the post clause and the body are abstract nodes whose evaluations yield given objects
// (elements, truthy / falsy / failing conditions, body results that are plain text, carry a break or continue marker —
// directly or inside nested blocks —, or fail). Observed: how often and in which order the children are evaluated, what
// the body sees in its scope at each pass (the element under the loop variable; the loop object with index, iter,
// first, last), what is bound after the post clause, and the text returned. The organisation of the evaluator's code
// (helpers, closures, a shared loop driver, builders instead of buffers) does not matter.

import (
	"fmt"
	"go/constant"
	"go/types"
	"strings"

	"golang.org/x/tools/go/ssa"
)

type loopCaseResult struct {
	decided bool
	why     string
	bad     []string
	cases   int
	pos     string
}

type loopWorld struct {
	m            *Model
	ev           *ssa.Function
	envT         *types.Named
	fStore, fOut int
	objT         map[string]*types.Named
	valIdx       map[string]int
}

func (m *Model) newLoopWorld() (*loopWorld, string) {
	w := &loopWorld{m: m, objT: map[string]*types.Named{}, valIdx: map[string]int{}}
	w.ev = m.Method("evaluator", "Evaluator", "Eval")
	w.envT = m.namedType("object", "Env")
	if w.ev == nil || w.envT == nil {
		return nil, "Eval / object.Env not found"
	}
	w.fStore, w.fOut = -1, -1
	est := w.envT.Underlying().(*types.Struct)
	for i := 0; i < est.NumFields(); i++ {
		switch canonFieldName(w.envT, i, est.Field(i).Name()) {
		case "store":
			w.fStore = i
		case "outer":
			w.fOut = i
		}
	}
	if w.fStore < 0 || w.fOut < 0 {
		return nil, "fields of object.Env not found"
	}
	for _, n := range []string{"HTML", "Block", "Break", "Continue", "Error", "Array", "Int", "Bool", "Str", "Obj", "Nil"} {
		nt := m.namedType("object", n)
		if nt == nil {
			return nil, "object." + n + " not found"
		}
		w.objT[n] = nt
		st := nt.Underlying().(*types.Struct)
		w.valIdx[n] = -1
		for i := 0; i < st.NumFields(); i++ {
			switch st.Field(i).Name() {
			case "Value", "Elements", "Pairs":
				w.valIdx[n] = i
			}
		}
	}
	return w, ""
}

func (w *loopWorld) obj(kind string, val any) *iStruct {
	o := &iStruct{typ: w.objT[kind], fields: map[int]any{}}
	if val != nil && w.valIdx[kind] >= 0 {
		o.fields[w.valIdx[kind]] = val
	}
	return o
}

func (w *loopWorld) html(text string) *iStruct { return w.obj("HTML", constant.MakeString(text)) }

func (w *loopWorld) block(elems ...any) *iStruct {
	return w.obj("Block", iSlice{&iArr{elems: elems}, 0, len(elems)})
}

func (w *loopWorld) newEnv() *iStruct {
	return &iStruct{typ: w.envT, fields: map[int]any{w.fStore: &iMap{vals: map[string]any{}, kval: map[string]constant.Value{}}, w.fOut: iNil{}}}
}

// lookup walks the scope chain from e (not beyond stop) for name.
func (w *loopWorld) lookup(e any, name string, stop *iStruct) (any, bool) {
	for d := 0; d < 6; d++ {
		es, ok := e.(*iStruct)
		if !ok || es.typ != w.envT {
			return nil, false
		}
		if mp, isM := es.fields[w.fStore].(*iMap); isM && mp.vals != nil {
			if v, have := mp.vals[constant.MakeString(name).ExactString()]; have {
				return v, true
			}
		} else {
			return nil, false
		}
		if es == stop {
			return nil, false
		}
		e = es.fields[w.fOut]
	}
	return nil, false
}

// enclosedBy: e is a scope created during the evaluation whose chain of outer scopes reaches envIn.
func (w *loopWorld) enclosedBy(e any, envIn *iStruct) bool {
	es, ok := e.(*iStruct)
	if !ok || es == envIn {
		return false
	}
	for d := 0; d < 6; d++ {
		o, isO := es.fields[w.fOut].(*iStruct)
		if !isO {
			return false
		}
		if o == envIn {
			return true
		}
		es = o
	}
	return false
}

func (w *loopWorld) intVal(o any) (int64, bool) {
	s, ok := o.(*iStruct)
	if !ok || s.typ != w.objT["Int"] {
		return 0, false
	}
	c, isC := s.fields[w.valIdx["Int"]].(constant.Value)
	if !isC {
		return 0, false
	}
	v, exact := constant.Int64Val(c)
	return v, exact
}

func (w *loopWorld) boolVal(o any) (bool, bool) {
	s, ok := o.(*iStruct)
	if !ok || s.typ != w.objT["Bool"] {
		return false, false
	}
	c, isC := s.fields[w.valIdx["Bool"]].(constant.Value)
	if !isC || c.Kind() != constant.Bool {
		return false, false
	}
	return constant.BoolVal(c), true
}

func (w *loopWorld) fieldIdx(t *types.Named, name string) int {
	st := t.Underlying().(*types.Struct)
	for i := 0; i < st.NumFields(); i++ {
		if canonFieldName(t, i, st.Field(i).Name()) == name {
			return i
		}
	}
	return -1
}

// bodyAST: the syntax of the loop body. What a loop does depends on what its body evaluates to, not on what the body
// looks like; the body is therefore given a syntax that a shortcut based on looking at it is likely to misjudge:
// `@if(c)text@elseif(d)@breakIf(e)@continueIf(f)@end` — the control directives sit in an @elseif branch.
func (w *loopWorld) bodyAST() *iStruct {
	m := w.m
	mk := func(name string, fields map[string]any) *iStruct {
		nt := m.namedType("ast", name)
		if nt == nil {
			return nil
		}
		o := &iStruct{typ: nt, fields: map[int]any{}, zeroed: true}
		for fname, v := range fields {
			if i := w.fieldIdx(nt, fname); i >= 0 {
				o.fields[i] = v
			}
		}
		return o
	}
	list := func(elems ...any) iSlice { return iSlice{&iArr{elems: elems}, 0, len(elems)} }
	brk := mk("BreakIfStmt", map[string]any{"Condition": iObj{"e"}})
	cnt := mk("ContinueIfStmt", map[string]any{"Condition": iObj{"f"}})
	text := mk("HTMLStmt", nil)
	if brk == nil || cnt == nil || text == nil {
		return mk("BlockStmt", nil)
	}
	elif := mk("ElseIfStmt", map[string]any{"Condition": iObj{"d"}, "Consequence": mk("BlockStmt", map[string]any{"Statements": list(brk, cnt)})})
	iff := mk("IfStmt", map[string]any{"Condition": iObj{"c"}, "Consequence": mk("BlockStmt", map[string]any{"Statements": list(text)}),
		"Alternatives": list(elif), "Alternative": iNil{}})
	if elif == nil || iff == nil {
		return mk("BlockStmt", nil)
	}
	return mk("BlockStmt", map[string]any{"Statements": list(iff)})
}

// bodies: what the body yields in pass k (1-based) for a scenario.
func (w *loopWorld) bodyResult(kind string, k int) *iStruct {
	if k > 4 {
		return w.obj("Error", nil) // a loop that should have ended long ago: stop it
	}
	text := []string{"", "<A>", "<B>", "<C>", "<D>"}[k]
	switch kind {
	case "break":
		return w.block(w.html(text), w.obj("Break", nil))
	case "break-nested":
		return w.block(w.html(text), w.block(w.obj("Break", nil)))
	case "break-bare":
		return w.obj("Break", nil)
	case "continue":
		return w.block(w.html(text), w.obj("Continue", nil))
	case "continue-nested":
		return w.block(w.block(w.html(text), w.obj("Continue", nil)))
	case "error":
		return w.obj("Error", nil)
	case "empty":
		return w.html("")
	case "continue-empty":
		return w.block(w.obj("Continue", nil))
	}
	return w.html(text)
}

// passText: the text a pass of the given kind contributes to the loop's result.
func passText(kind string, k int) string {
	switch kind {
	case "break-bare", "error", "empty", "continue-empty":
		return ""
	}
	if k > 4 {
		return ""
	}
	return []string{"", "<A>", "<B>", "<C>", "<D>"}[k]
}

var loopBodyKinds = []string{"", "empty", "break", "break-nested", "break-bare", "continue", "continue-nested", "continue-empty", "error"}

// kindVectors: all assignments of body kinds to passes 1..n (nothing after a pass that ends the loop).
func kindVectors(n int) []map[int]string {
	out := []map[int]string{{}}
	for k := 1; k <= n; k++ {
		var next []map[int]string
		for _, v := range out {
			ended := false
			for _, kind := range v {
				if strings.HasPrefix(kind, "break") || kind == "error" {
					ended = true
				}
			}
			if ended {
				next = append(next, v)
				continue
			}
			for _, kind := range loopBodyKinds {
				nv := map[int]string{}
				for a, b := range v {
					nv[a] = b
				}
				if kind != "" {
					nv[k] = kind
				}
				next = append(next, nv)
			}
		}
		out = next
	}
	return out
}

func describeKinds(v map[int]string) string {
	if len(v) == 0 {
		return "plain passes"
	}
	var parts []string
	for k := 1; k <= 4; k++ {
		if kind, ok := v[k]; ok {
			parts = append(parts, fmt.Sprintf("pass %d: %s", k, kind))
		}
	}
	return strings.Join(parts, ", ")
}

func (m *Model) eachCases() *loopCaseResult {
	if m.eachCaseRes != nil {
		return m.eachCaseRes
	}
	r := &loopCaseResult{}
	m.eachCaseRes = r
	w, why := m.newLoopWorld()
	if w == nil {
		r.why = why
		return r
	}
	eachT, identT := m.namedType("ast", "EachStmt"), m.namedType("ast", "Identifier")
	blockStmtT := m.namedType("ast", "BlockStmt")
	if eachT == nil || identT == nil || blockStmtT == nil {
		r.why = "ast.EachStmt / ast.Identifier / ast.BlockStmt not found"
		return r
	}
	r.pos = m.Pos(w.ev.Pos())
	fVar, fArr, fBlk, fAlt := w.fieldIdx(eachT, "Var"), w.fieldIdx(eachT, "Array"), w.fieldIdx(eachT, "Block"), w.fieldIdx(eachT, "Alternative")
	iVal := w.fieldIdx(identT, "Value")
	if fVar < 0 || fArr < 0 || fBlk < 0 || fAlt < 0 || iVal < 0 {
		r.why = "fields of ast.EachStmt not found"
		return r
	}
	type scen struct {
		name    string
		n       int            // elements; -1: the array expression fails; -2: it yields an integer
		special map[int]string // pass -> kind of body result
		alt     bool
	}
	scens := []scen{
		{"three elements", 3, nil, false},
		{"three elements, an @else body present", 3, nil, true},
		{"one element", 1, nil, false},
		{"no element, with @else", 0, nil, true},
		{"no element, no @else", 0, nil, false},
		{"three elements, @break in the second pass", 3, map[int]string{2: "break"}, false},
		{"three elements, @break under a nested @if in the second pass", 3, map[int]string{2: "break-nested"}, false},
		{"three elements, the first pass yields the break marker itself", 3, map[int]string{1: "break-bare"}, false},
		{"three elements, @continue in the second pass", 3, map[int]string{2: "continue"}, false},
		{"three elements, @continue under a nested @if in the first pass", 3, map[int]string{1: "continue-nested"}, false},
		{"three elements, the second pass fails", 3, map[int]string{2: "error"}, false},
		{"the array expression fails", -1, nil, true},
		{"the array expression yields an integer", -2, nil, true},
	}
	// every combination of body results over arrays of 1 and 2 elements, with and without an @else body
	for n := 1; n <= 2; n++ {
		for _, v := range kindVectors(n) {
			for _, alt := range []bool{true, false} {
				scens = append(scens, scen{fmt.Sprintf("%d element(s), %s, @else %v", n, describeKinds(v), alt), n, v, alt})
			}
		}
	}
	for _, sc := range scens {
		r.cases++
		anode := iObj{"array expression"}
		blk := w.bodyAST()
		alt := &iStruct{typ: blockStmtT, fields: map[int]any{}}
		node := &iStruct{typ: eachT, fields: map[int]any{fVar: &iStruct{typ: identT, fields: map[int]any{iVal: constant.MakeString("item")}}, fArr: anode, fBlk: blk}}
		if sc.alt {
			node.fields[fAlt] = alt
		} else {
			node.fields[fAlt] = iNil{}
		}
		envIn := w.newEnv()
		var elems []any
		for i := 0; i < sc.n; i++ {
			elems = append(elems, w.obj("Str", constant.MakeString(fmt.Sprintf("e%d", i))))
		}
		var arrRes any
		switch sc.n {
		case -1:
			arrRes = w.obj("Error", nil)
		case -2:
			arrRes = w.obj("Int", constant.MakeInt64(5))
		default:
			arrRes = w.obj("Array", iSlice{&iArr{elems: elems}, 0, len(elems)})
		}
		altRes := w.html("<ELSE>")
		passes := 0
		var bodyResults []*iStruct
		problem := ""
		nArr, nAlt := 0, 0
		ip := &Interp{m: m, useGlobals: true}
		ip.call = func(c *ssa.Call, args []any) (any, bool) {
			sc2 := c.Call.StaticCallee()
			if sc2 != w.ev || len(args) < 3 {
				if sc2 != nil && m.InModule(sc2) && sc2.Signature.Results().Len() == 1 && types.Identical(sc2.Signature.Results().At(0).Type(), types.NewPointer(w.objT["Error"])) {
					return w.obj("Error", nil), true
				}
				return nil, false
			}
			switch args[1] {
			case any(anode):
				nArr++
				return arrRes, true
			case any(alt):
				nAlt++
				if !w.enclosedBy(args[2], envIn) && problem == "" {
					problem = "the @else body is not evaluated in a scope of the loop's own enclosed by the incoming one (what it assigns would leak out)"
				}
				return altRes, true
			case any(blk):
				passes++
				i := passes - 1
				if problem == "" {
					switch {
					case !w.enclosedBy(args[2], envIn):
						problem = fmt.Sprintf("pass %d: the body is not evaluated in a scope of its own enclosed by the incoming one", passes)
					case i >= len(elems):
						problem = fmt.Sprintf("the body is evaluated %d times for %d elements", passes, len(elems))
					default:
						if v, ok := w.lookup(args[2], "item", envIn); !ok || v != elems[i] {
							problem = fmt.Sprintf("pass %d: the loop variable is not bound to element %d in the body's scope", passes, i)
						} else if lo, ok := w.lookup(args[2], "loop", envIn); !ok {
							problem = fmt.Sprintf("pass %d: no loop object in the body's scope", passes)
						} else if los, isO := lo.(*iStruct); !isO || los.typ != w.objT["Obj"] {
							problem = fmt.Sprintf("pass %d: `loop` is not an object", passes)
						} else if mp, isM := los.fields[w.valIdx["Obj"]].(*iMap); !isM || mp.vals == nil {
							problem = fmt.Sprintf("pass %d: the loop object's properties are unknown", passes)
						} else {
							get := func(k string) any { return mp.vals[constant.MakeString(k).ExactString()] }
							idx, ok1 := w.intVal(get("index"))
							iter, ok2 := w.intVal(get("iter"))
							first, ok3 := w.boolVal(get("first"))
							last, ok4 := w.boolVal(get("last"))
							switch {
							case !ok1 || idx != int64(i):
								problem = fmt.Sprintf("pass %d of %d: loop.index is not %d", passes, len(elems), i)
							case !ok2 || iter != int64(i+1):
								problem = fmt.Sprintf("pass %d of %d: loop.iter is not %d", passes, len(elems), i+1)
							case !ok3 || first != (i == 0):
								problem = fmt.Sprintf("pass %d of %d: loop.first is not %v", passes, len(elems), i == 0)
							case !ok4 || last != (i == len(elems)-1):
								problem = fmt.Sprintf("pass %d of %d: loop.last is not %v", passes, len(elems), i == len(elems)-1)
							}
						}
					}
				}
				res := w.bodyResult(sc.special[passes], passes)
				bodyResults = append(bodyResults, res)
				return res, true
			}
			return nil, true
		}
		res, known := ip.Run(w.ev, []any{iObj{"evaluator"}, node, envIn})
		if ip.stuck != "" || len(ip.lost) > 0 {
			why := ip.stuck
			for _, l := range ip.lost {
				why += " (" + fnKey(l) + " could not be evaluated)"
			}
			r.why = sc.name + ": " + why
			return r
		}
		// expectations
		wantPasses, wantText := 0, ""
		stopped := false
		for k := 1; k <= sc.n && !stopped; k++ {
			wantPasses++
			kind := sc.special[k]
			wantText += passText(kind, k)
			if strings.HasPrefix(kind, "break") || kind == "error" {
				stopped = true
			}
		}
		fail := func(f string, a ...any) { r.bad = append(r.bad, sc.name+": "+fmt.Sprintf(f, a...)) }
		ro, isO := res.(*iStruct)
		switch {
		case problem != "":
			fail("%s", problem)
		case nArr != 1:
			fail("the array expression is evaluated %d times", nArr)
		case sc.n == -1:
			if !known || res != arrRes {
				fail("the failure of the array expression is not what the statement returns")
			}
		case sc.n == -2:
			if !known || !isO || ro.typ != w.objT["Error"] || passes != 0 || nAlt != 0 {
				fail("iterating a non-array is not an error (or the @else body / the body is evaluated)")
			}
		case sc.n == 0 && sc.alt:
			if nAlt != 1 || passes != 0 || !known || res != any(altRes) {
				fail("the @else body is not evaluated exactly once and returned as it is (evaluated %d times, %d body passes)", nAlt, passes)
			}
		case passes != wantPasses:
			fail("the body is evaluated %d times, expected %d", passes, wantPasses)
		case nAlt != 0:
			fail("the @else body is evaluated although the array has elements")
		case wantPasses > 0 && sc.special[wantPasses] == "error":
			if !known || res != any(bodyResults[wantPasses-1]) {
				fail("the failure of a pass is not what the statement returns")
			}
		default:
			tv, _ := func() (constant.Value, bool) {
				if !known || !isO || ro.typ != w.objT["HTML"] {
					return nil, false
				}
				c, ok := ro.fields[w.valIdx["HTML"]].(constant.Value)
				return c, ok
			}()
			if tv == nil || tv.Kind() != constant.String {
				fail("the result is not the text of the passes (an HTML object with known text)")
			} else if constant.StringVal(tv) != wantText {
				fail("the result text is %q, expected %q", constant.StringVal(tv), wantText)
			}
		}
	}
	r.decided = true
	return r
}

func (m *Model) forCases() *loopCaseResult {
	if m.forCaseRes != nil {
		return m.forCaseRes
	}
	r := &loopCaseResult{}
	m.forCaseRes = r
	w, why := m.newLoopWorld()
	if w == nil {
		r.why = why
		return r
	}
	forT, assignT, identT, blockStmtT := m.namedType("ast", "ForStmt"), m.namedType("ast", "AssignStmt"), m.namedType("ast", "Identifier"), m.namedType("ast", "BlockStmt")
	if forT == nil || assignT == nil || identT == nil || blockStmtT == nil {
		r.why = "ast.ForStmt / ast.AssignStmt not found"
		return r
	}
	r.pos = m.Pos(w.ev.Pos())
	fInit, fCond, fPost, fBlk, fAlt := w.fieldIdx(forT, "Init"), w.fieldIdx(forT, "Condition"), w.fieldIdx(forT, "Post"), w.fieldIdx(forT, "Block"), w.fieldIdx(forT, "Alternative")
	aName, iVal := w.fieldIdx(assignT, "Name"), w.fieldIdx(identT, "Value")
	if fInit < 0 || fCond < 0 || fPost < 0 || fBlk < 0 || fAlt < 0 || aName < 0 || iVal < 0 {
		r.why = "fields of ast.ForStmt / ast.AssignStmt not found"
		return r
	}
	type scen struct {
		name     string
		limit    int            // the condition is truthy while fewer than limit passes are complete; -1: no condition
		special  map[int]string // pass -> kind of body result
		alt      bool
		noPost   bool
		noInit   bool
		condFail int // the condition fails at its k-th evaluation (0: never)
		postFail int // the post clause fails at its k-th evaluation
		// postOwn: no init clause, and the post clause is `n++` on a variable n of the enclosing scope: the step is
		// applied to n. postAssign: the post clause is an assignment (it binds its variable itself and yields nil):
		// the loop does not bind the nil again
		postOwn    bool
		postAssign bool
	}
	scens := []scen{
		{name: "two passes", limit: 2},
		{name: "two passes, an @else body present", limit: 2, alt: true},
		{name: "condition false at entry, with @else", limit: 0, alt: true},
		{name: "condition false at entry, no @else", limit: 0},
		{name: "three passes, @break in the second", limit: 3, special: map[int]string{2: "break"}},
		{name: "three passes, @break under a nested @if in the first", limit: 3, special: map[int]string{1: "break-nested"}},
		{name: "three passes, @continue in the second", limit: 3, special: map[int]string{2: "continue"}},
		{name: "two passes, the second fails", limit: 2, special: map[int]string{2: "error"}},
		{name: "no condition, @break in the second pass", limit: -1, special: map[int]string{2: "break"}},
		{name: "no post clause, two passes", limit: 2, noPost: true},
		{name: "no init clause, two passes", limit: 2, noInit: true},
		{name: "the condition fails when first evaluated", limit: 2, condFail: 1, alt: true},
		{name: "the condition fails after the first pass", limit: 2, condFail: -1},
		{name: "the post clause fails after the first pass", limit: 2, postFail: 1},
		{name: "no init clause, the post clause steps a variable of the enclosing scope (n++), two passes", limit: 2, noInit: true, postOwn: true},
		{name: "the post clause is an assignment (i = i + 2), two passes", limit: 2, postAssign: true},
	}
	exprStmtT, postfixT := m.namedType("ast", "ExpressionStmt"), m.namedType("ast", "PostfixExp")
	fExpr, fLeft := -1, -1
	if exprStmtT != nil && postfixT != nil {
		fExpr, fLeft = w.fieldIdx(exprStmtT, "Expression"), w.fieldIdx(postfixT, "Left")
	}
	// every combination of body results over loops of 1 and 2 passes, with and without an @else body / a post clause
	for n := 1; n <= 2; n++ {
		for _, v := range kindVectors(n) {
			for _, alt := range []bool{true, false} {
				scens = append(scens, scen{name: fmt.Sprintf("%d pass(es), %s, @else %v", n, describeKinds(v), alt), limit: n, special: v, alt: alt})
			}
		}
	}
	for _, sc := range scens {
		r.cases++
		inode := &iStruct{typ: assignT, fields: map[int]any{aName: &iStruct{typ: identT, fields: map[int]any{iVal: constant.MakeString("i")}}}}
		cnode := iObj{"condition"}
		var pnode any = iObj{"post clause"}
		// the usual post clause: an expression statement whose expression is not a postfix step of a variable
		if infixT := m.namedType("ast", "InfixExp"); infixT != nil && fExpr >= 0 {
			pnode = &iStruct{typ: exprStmtT, fields: map[int]any{fExpr: &iStruct{typ: infixT, fields: map[int]any{}}}}
		}
		if sc.postOwn {
			if fExpr < 0 || fLeft < 0 {
				continue
			}
			pnode = &iStruct{typ: exprStmtT, fields: map[int]any{fExpr: &iStruct{typ: postfixT, fields: map[int]any{fLeft: &iStruct{typ: identT, fields: map[int]any{iVal: constant.MakeString("n")}}}}}}
		}
		if sc.postAssign {
			pnode = &iStruct{typ: assignT, fields: map[int]any{aName: &iStruct{typ: identT, fields: map[int]any{iVal: constant.MakeString("i")}}}}
		}
		blk := w.bodyAST()
		alt := &iStruct{typ: blockStmtT, fields: map[int]any{}}
		node := &iStruct{typ: forT, fields: map[int]any{fBlk: blk}}
		setOrNil := func(f int, present bool, v any) {
			if present {
				node.fields[f] = v
			} else {
				node.fields[f] = iNil{}
			}
		}
		setOrNil(fInit, !sc.noInit, inode)
		setOrNil(fCond, sc.limit >= 0, cnode)
		setOrNil(fPost, !sc.noPost, pnode)
		setOrNil(fAlt, sc.alt, alt)
		envIn := w.newEnv()
		outerLoop := w.obj("Obj", nil) // the loop object of an enclosing @each
		if mp, isM := envIn.fields[w.fStore].(*iMap); isM {
			k := constant.MakeString("loop")
			mp.keys = append(mp.keys, k.ExactString())
			mp.vals[k.ExactString()] = outerLoop
			mp.kval[k.ExactString()] = k
		}
		if sc.postOwn {
			if mp, isM := envIn.fields[w.fStore].(*iMap); isM && mp.vals != nil {
				k := constant.MakeString("n")
				mp.keys = append(mp.keys, k.ExactString())
				mp.vals[k.ExactString()] = w.obj("Int", constant.MakeInt64(0))
				mp.kval[k.ExactString()] = k
			}
		}
		altRes := w.html("<ELSE>")
		passes, posts, conds, inits, nAlt := 0, 0, 0, 0, 0
		var events []string
		var bodyResults, postResults []*iStruct
		var condErr, postErr *iStruct
		problem := ""
		checkScope := func(what string, e any) {
			if problem == "" && !w.enclosedBy(e, envIn) {
				problem = what + " is not evaluated in the loop's own scope (enclosed by the incoming one)"
			}
		}
		ip := &Interp{m: m, useGlobals: true}
		ip.call = func(c *ssa.Call, args []any) (any, bool) {
			sc2 := c.Call.StaticCallee()
			if sc2 != w.ev || len(args) < 3 {
				if sc2 != nil && m.InModule(sc2) && sc2.Signature.Results().Len() == 1 && types.Identical(sc2.Signature.Results().At(0).Type(), types.NewPointer(w.objT["Error"])) {
					return w.obj("Error", nil), true
				}
				return nil, false
			}
			switch args[1] {
			case any(inode):
				inits++
				events = append(events, "init")
				checkScope("the init clause", args[2])
				// the assignment binds i in the scope it is evaluated in
				if es, ok := args[2].(*iStruct); ok && es.typ == w.envT {
					if mp, isM := es.fields[w.fStore].(*iMap); isM && mp.vals != nil {
						k := constant.MakeString("i")
						mp.keys = append(mp.keys, k.ExactString())
						mp.vals[k.ExactString()] = w.obj("Int", constant.MakeInt64(0))
						mp.kval[k.ExactString()] = k
					}
				}
				return w.obj("Nil", nil), true
			case any(cnode):
				conds++
				events = append(events, "cond")
				checkScope("the condition", args[2])
				if problem == "" && !sc.noInit && !sc.noPost && !sc.postAssign && posts > 0 {
					if v, ok := w.lookup(args[2], "i", envIn); !ok || v != any(postResults[posts-1]) {
						problem = fmt.Sprintf("after post clause #%d the loop variable does not hold its result when the condition is evaluated", posts)
					}
				}
				if problem == "" && sc.postOwn && posts > 0 {
					if v, ok := w.lookup(args[2], "n", envIn); !ok || v != any(postResults[posts-1]) {
						problem = fmt.Sprintf("after post clause #%d (`n++` in a loop without an init clause) the variable n does not hold the stepped value when the condition is evaluated: the step is lost and `{{ n = 0 }}@for(; n < 3; n++)` never ends", posts)
					}
				}
				if problem == "" && sc.postAssign && posts > 0 {
					if v, ok := w.lookup(args[2], "i", envIn); ok {
						if o, isO := v.(*iStruct); isO && o.typ == w.objT["Nil"] {
							problem = "after an assignment as post clause the loop variable is bound to the nil the assignment yields"
						}
					}
				}
				if (sc.condFail > 0 && conds == sc.condFail) || (sc.condFail == -1 && passes == 1) {
					condErr = w.obj("Error", nil)
					return condErr, true
				}
				return w.obj("Bool", constant.MakeBool(passes < sc.limit)), true
			case pnode:
				posts++
				events = append(events, "post")
				checkScope("the post clause", args[2])
				if sc.postFail > 0 && posts == sc.postFail {
					postErr = w.obj("Error", nil)
					return postErr, true
				}
				if sc.postAssign {
					return w.obj("Nil", nil), true // an assignment binds its variable itself and yields nil
				}
				pr := w.obj("Int", constant.MakeInt64(int64(posts)))
				postResults = append(postResults, pr)
				return pr, true
			case any(alt):
				nAlt++
				events = append(events, "else")
				checkScope("the @else body", args[2])
				return altRes, true
			case any(blk):
				passes++
				events = append(events, "body")
				checkScope("the body", args[2])
				// @for has no loop object of its own: inside an @each, `loop` is still the @each's
				if lo, has := w.lookup(args[2], "loop", nil); problem == "" && (!has || lo != any(outerLoop)) {
					problem = fmt.Sprintf("pass %d: `loop` in the body of the @for is not the loop object of the enclosing @each any more (the @for binds one of its own): loop.index / loop.last of the element are lost inside a nested @for", passes)
				}
				res := w.bodyResult(sc.special[passes], passes)
				bodyResults = append(bodyResults, res)
				return res, true
			}
			return nil, true
		}
		res, known := ip.Run(w.ev, []any{iObj{"evaluator"}, node, envIn})
		if ip.stuck != "" || len(ip.lost) > 0 {
			why := ip.stuck
			for _, l := range ip.lost {
				why += " (" + fnKey(l) + " could not be evaluated)"
			}
			r.why = sc.name + ": " + why
			return r
		}
		fail := func(f string, a ...any) { r.bad = append(r.bad, sc.name+": "+fmt.Sprintf(f, a...)) }
		// expected sequence: the body/post/cond order within the loop; the entry test may or may not be a separate
		// evaluation of the condition (only its outcome matters), so consecutive "cond" events are merged
		var seq []string
		for _, e := range events {
			if e == "cond" && len(seq) > 0 && seq[len(seq)-1] == "cond" {
				continue
			}
			seq = append(seq, e)
		}
		var want []string
		wantText := ""
		var wantRes any
		if !sc.noInit {
			want = append(want, "init")
		}
		done := false
		pass, npost := 0, 0
		for !done {
			if sc.limit >= 0 {
				want = append(want, "cond")
				if (sc.condFail == 1 && pass == 0) || (sc.condFail == -1 && pass == 1) {
					wantRes = "cond-error"
					break
				}
				if pass >= sc.limit {
					if pass == 0 && sc.alt {
						want = append(want, "else")
						wantRes = "else"
					}
					break
				}
			}
			pass++
			want = append(want, "body")
			kind := sc.special[pass]
			if kind == "error" {
				wantRes = "body-error"
				break
			}
			wantText += passText(kind, pass)
			if strings.HasPrefix(kind, "break") {
				break
			}
			if !sc.noPost {
				npost++
				want = append(want, "post")
				if sc.postFail == npost {
					wantRes = "post-error"
					break
				}
			}
			if pass > 5 {
				done = true
			}
		}
		ro, isO := res.(*iStruct)
		switch {
		case problem != "":
			fail("%s", problem)
		case strings.Join(seq, " ") != strings.Join(want, " "):
			fail("the clauses are evaluated in the order [%s], expected [%s]", strings.Join(seq, " "), strings.Join(want, " "))
		case wantRes == "cond-error":
			if !known || res != any(condErr) {
				fail("the failure of the condition is not what the statement returns")
			}
		case wantRes == "post-error":
			if !known || res != any(postErr) {
				fail("the failure of the post clause is not what the statement returns")
			}
		case wantRes == "body-error":
			if !known || res != any(bodyResults[len(bodyResults)-1]) {
				fail("the failure of a pass is not what the statement returns")
			}
		case wantRes == "else":
			if !known || res != any(altRes) || nAlt != 1 {
				fail("the @else body is not evaluated exactly once and returned as it is")
			}
		default:
			var tv constant.Value
			if known && isO && ro.typ == w.objT["HTML"] {
				tv, _ = ro.fields[w.valIdx["HTML"]].(constant.Value)
			}
			if tv == nil || tv.Kind() != constant.String {
				fail("the result is not the text of the passes (an HTML object with known text)")
			} else if constant.StringVal(tv) != wantText {
				fail("the result text is %q, expected %q", constant.StringVal(tv), wantText)
			}
		}
	}
	r.decided = true
	return r
}
