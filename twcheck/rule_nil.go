package main

// rule_nil.go — R-NILFIELD (nilable AST fields are tested before use),
// R-NILOBJ (nil Object producers are checked by every consumer; reflect
// Interface() receivers are valid) and R-PANICCALL.

import (
	"fmt"
	"go/constant"
	"go/token"
	"go/types"
	"sort"
	"strings"

	"golang.org/x/tools/go/ssa"
)

// ---------------------------------------------------------------------------
// Nilable AST fields

type nilableInfo struct {
	why map[fieldID]string // field -> where it is left unset
	all map[fieldID]bool   // every pointer/interface field of ast node structs seen at an allocation
}

// NilableASTFields: a pointer- or interface-typed field F of a struct in
// package ast is nilable if some allocation of the struct escapes (is
// returned, stored, passed or boxed) without a dominating store to F.
func (m *Model) NilableASTFields() *nilableInfo {
	if m.nilable != nil {
		return m.nilable
	}
	ni := &nilableInfo{why: map[fieldID]string{}, all: map[fieldID]bool{}}
	m.nilable = ni
	astPrefix := modPath + "/ast."
	for _, fn := range m.ModFns {
		if isUserPkg(fnPkgPath(fn)) || fn.Blocks == nil {
			continue
		}
		ctx := m.Ctx(fn)
		for _, b := range fn.Blocks {
			for _, in := range b.Instrs {
				al, ok := in.(*ssa.Alloc)
				if !ok {
					continue
				}
				tn := derefTypeString(al.Type())
				if !strings.HasPrefix(tn, astPrefix) {
					continue
				}
				st, ok := al.Type().Underlying().(*types.Pointer).Elem().Underlying().(*types.Struct)
				if !ok {
					continue
				}
				// stores per field and escape points
				stores := map[int][]ssa.Instruction{}
				var escapes []ssa.Instruction
				for _, r := range *al.Referrers() {
					if fa, ok := r.(*ssa.FieldAddr); ok && fa.X == ssa.Value(al) {
						onlyStoreTo := true
						for _, rr := range *fa.Referrers() {
							if s, ok := rr.(*ssa.Store); ok && s.Addr == ssa.Value(fa) {
								if c, isC := s.Val.(*ssa.Const); isC && c.IsNil() {
									continue // storing nil initialises nothing
								}
								stores[fa.Field] = append(stores[fa.Field], s)
							} else if _, isLoad := rr.(*ssa.UnOp); isLoad {
								// reading a field is not an escape
							} else {
								onlyStoreTo = false
							}
						}
						_ = onlyStoreTo
						continue
					}
					if _, ok := r.(*ssa.DebugRef); ok {
						continue
					}
					escapes = append(escapes, r)
				}
				// a helper that is handed the fresh node and stores a field on every path to its return initialises
				// that field like a store at the call would
				for _, esc := range escapes {
					c, isC := esc.(*ssa.Call)
					if !isC || c.Call.StaticCallee() == nil || !m.InModule(c.Call.StaticCallee()) {
						continue
					}
					for ai, a := range c.Call.Args {
						if a != ssa.Value(al) {
							continue
						}
						for _, f := range m.mustStoreFields(c.Call.StaticCallee(), ai) {
							stores[f] = append(stores[f], c)
						}
					}
				}
				for i := 0; i < st.NumFields(); i++ {
					ft := st.Field(i).Type().Underlying()
					_, isPtr := ft.(*types.Pointer)
					_, isIface := ft.(*types.Interface)
					if !isPtr && !isIface {
						continue
					}
					id := fieldID{tn, i}
					ni.all[id] = true
					for _, esc := range escapes {
						covered := false
						for _, s := range stores[i] {
							if s == esc {
								covered = true // the helper call that stores the field
							}
						}
						if covered {
							continue
						}
						for _, s := range stores[i] {
							if ctx.instrDominates(s, esc) {
								covered = true
								break
							}
						}
						if !covered {
							if _, dup := ni.why[id]; !dup {
								ni.why[id] = fmt.Sprintf("%s allocates %s and lets it escape at %s without a dominating store to %s", fnKey(fn), shortTypeName(tn), m.InstrPos(esc), st.Field(i).Name())
							}
							break
						}
					}
				}
			}
		}
	}
	return ni
}

// mustStoreFields: the fields of its k-th parameter (a pointer to a struct) that fn stores on every path to a return.
func (m *Model) mustStoreFields(fn *ssa.Function, k int) []int {
	if fn.Blocks == nil || k >= len(fn.Params) {
		return nil
	}
	ctx := m.Ctx(fn)
	par := fn.Params[k]
	byField := map[int][]ssa.Instruction{}
	for _, b := range fn.Blocks {
		for _, in := range b.Instrs {
			st, ok := in.(*ssa.Store)
			if !ok {
				continue
			}
			fa, ok := st.Addr.(*ssa.FieldAddr)
			if !ok || fa.X != ssa.Value(par) {
				continue
			}
			if c, isC := st.Val.(*ssa.Const); isC && c.IsNil() {
				continue
			}
			byField[fa.Field] = append(byField[fa.Field], st)
		}
	}
	var out []int
	for f, sts := range byField {
		all := true
		for _, b := range fn.Blocks {
			ret, ok := b.Instrs[len(b.Instrs)-1].(*ssa.Return)
			if !ok {
				continue
			}
			dom := false
			for _, s := range sts {
				if ctx.instrDominates(s, ret) {
					dom = true
				}
			}
			if !dom {
				all = false
			}
		}
		if all {
			out = append(out, f)
		}
	}
	sort.Ints(out)
	return out
}

func (ni *nilableInfo) names() []string {
	var out []string
	for id := range ni.why {
		out = append(out, shortTypeName(id.typ)+"#"+fmt.Sprint(id.field))
	}
	sort.Strings(out)
	return out
}

// nilGuarded: is there a dominating fact that value v (or a load of the same
// access path) is non-nil?
func nilGuarded(a *Arith, v ssa.Value, facts []Fact) bool {
	vk := a.canonKey(v)
	for _, f := range facts {
		b, ok := f.Cond.(*ssa.BinOp)
		if !ok || (b.Op != token.EQL && b.Op != token.NEQ) {
			continue
		}
		var other ssa.Value
		if a.canonKey(b.X) == vk {
			other = b.Y
		} else if a.canonKey(b.Y) == vk {
			other = b.X
		} else {
			continue
		}
		if c, ok := other.(*ssa.Const); ok && c.IsNil() && (b.Op == token.NEQ) == f.Holds {
			return true
		}
	}
	return false
}

// guardedByHelper: among the facts there is `g(x) == zero` (zero: "", nil, 0, false) for the very x whose field is used,
// and g — a module function — returns that zero constant only in blocks dominated by the non-nil edge of a nil test
// of the same field of its parameter (`problem := check(node); if problem != "" { return … }`).
func (m *Model) guardedByHelper(fa *ssa.FieldAddr, facts []Fact) *ssa.Function {
	isZero := func(c *ssa.Const) bool {
		if c.IsNil() {
			return true
		}
		if c.Value == nil {
			return false
		}
		switch c.Value.Kind() {
		case constant.String:
			return constant.StringVal(c.Value) == ""
		case constant.Bool:
			return !constant.BoolVal(c.Value)
		case constant.Int:
			v, ok := constant.Int64Val(c.Value)
			return ok && v == 0
		}
		return false
	}
	for _, f := range facts {
		bo, ok := f.Cond.(*ssa.BinOp)
		if !ok || (bo.Op != token.EQL && bo.Op != token.NEQ) {
			continue
		}
		var call *ssa.Call
		var k *ssa.Const
		if c, isC := bo.X.(*ssa.Call); isC {
			call, k, _ = c, nil, 0
			k, _ = bo.Y.(*ssa.Const)
		} else if c, isC := bo.Y.(*ssa.Call); isC {
			call = c
			k, _ = bo.X.(*ssa.Const)
		}
		if call == nil || k == nil || !isZero(k) || (bo.Op == token.EQL) != f.Holds {
			continue
		}
		g := call.Call.StaticCallee()
		if g == nil || g.Blocks == nil || !m.InModule(g) || g.Signature.Results().Len() != 1 {
			continue
		}
		pi := -1
		for i, a := range call.Call.Args {
			if stripIface(a) == fa.X {
				pi = i
			}
		}
		if pi < 0 || pi >= len(g.Params) {
			continue
		}
		ga := m.NewArith(g)
		all, n := true, 0
		for _, b := range g.Blocks {
			ret, isRet := b.Instrs[len(b.Instrs)-1].(*ssa.Return)
			if !isRet || len(ret.Results) != 1 {
				continue
			}
			rc, isK := ret.Results[0].(*ssa.Const)
			if isK && !isZero(rc) {
				continue // a non-zero constant: the caller takes the other side
			}
			n++
			if !isK {
				all = false // a computed result may be zero anywhere
				continue
			}
			// the same field of the parameter, known non-nil here
			guarded := false
			for _, gb := range g.Blocks {
				for _, in := range gb.Instrs {
					ld, isLd := in.(*ssa.UnOp)
					if !isLd || ld.Op != token.MUL {
						continue
					}
					gfa, isFA := ld.X.(*ssa.FieldAddr)
					if !isFA || gfa.Field != fa.Field || gfa.X != ssa.Value(g.Params[pi]) {
						continue
					}
					if nilGuarded(ga, ld, expandFacts(factsAt(b))) {
						guarded = true
					}
				}
			}
			if !guarded {
				all = false
			}
		}
		if all && n > 0 {
			return g
		}
	}
	return nil
}

// RunNilField checks every use of a nilable AST field in fns.
func (m *Model) RunNilField(s *Sink, rule string, fns []*ssa.Function) {
	ni := m.NilableASTFields()
	for _, fn := range fns {
		a := m.NewArith(fn)
		for _, b := range fn.Blocks {
			for _, in := range b.Instrs {
				ld, ok := in.(*ssa.UnOp)
				if !ok || ld.Op != token.MUL {
					continue
				}
				fa, ok := ld.X.(*ssa.FieldAddr)
				if !ok {
					continue
				}
				id := fieldID{derefTypeString(fa.X.Type()), fa.Field}
				if _, nilable := ni.why[id]; !nilable {
					continue
				}
				// dangerous uses of the loaded value
				for _, use := range derefUses(ld) {
					key := fmt.Sprintf("%s|use of nilable %s (%s)", fnKey(fn), valueDesc(ld), use.kind)
					facts := expandFacts(factsAt(use.at.Block()))
					if nilGuarded(a, ld, facts) {
						s.OK(rule, key, m.InstrPos(use.at), "dominated by the non-nil edge of a nil test of the same field")
						continue
					}
					if h := m.guardedByHelper(fa, facts); h != nil {
						s.OK(rule, key, m.InstrPos(use.at), "dominated by `%s(node) == <zero>`, and %s returns the zero value only where it has found the field non-nil", canonFnName(h), canonFnName(h))
						continue
					}
					s.Violation(rule, key, m.InstrPos(use.at),
						"%s is nilable (%s) and is %s in %s with no dominating nil test; a template that leaves it empty makes this a nil dereference",
						valueDesc(ld), ni.why[id], use.kind, fnKey(fn))
				}
			}
		}
	}
}

type derefUse struct {
	at   ssa.Instruction
	kind string
}

// derefUses lists the uses of v that dereference it or hand it to a callee.
func derefUses(v ssa.Value) []derefUse {
	var out []derefUse
	seen := map[ssa.Value]bool{}
	var walk func(x ssa.Value, d int)
	walk = func(x ssa.Value, d int) {
		if seen[x] || d > 3 || x.Referrers() == nil {
			return
		}
		seen[x] = true
		for _, r := range *x.Referrers() {
			switch u := r.(type) {
			case *ssa.FieldAddr:
				if u.X == x {
					out = append(out, derefUse{u, "dereferenced (field access)"})
				}
			case *ssa.Field:
				out = append(out, derefUse{u, "dereferenced (field access)"})
			case *ssa.MakeInterface:
				walk(u, d+1)
			case *ssa.ChangeInterface:
				walk(u, d+1)
			case *ssa.TypeAssert:
				if !u.CommaOk {
					out = append(out, derefUse{u, "type-asserted without comma-ok"})
				}
			case ssa.CallInstruction:
				com := u.Common()
				if com.IsInvoke() && com.Value == x {
					out = append(out, derefUse{u, "the receiver of a method call"})
					continue
				}
				for _, arg := range com.Args {
					if arg == x {
						out = append(out, derefUse{u, "passed to " + calleeName(com)})
						break
					}
				}
			case *ssa.UnOp:
				if u.Op == token.MUL && u.X == x {
					out = append(out, derefUse{u, "dereferenced"})
				}
			}
		}
	}
	walk(v, 0)
	return out
}

func calleeName(com *ssa.CallCommon) string {
	if sc := com.StaticCallee(); sc != nil {
		return canonFnName(sc)
	}
	if com.IsInvoke() {
		return com.Method.Name()
	}
	return "a function value"
}

// ---------------------------------------------------------------------------
// R-PANICCALL

var fatalCalls = map[string]bool{
	"log.Fatal": true, "log.Fatalf": true, "log.Fatalln": true, "log.Panic": true, "log.Panicf": true, "log.Panicln": true,
	"os.Exit": true, "runtime.Goexit": true,
}

func (m *Model) RunPanicCall(s *Sink, rule string, fns []*ssa.Function) {
	for _, fn := range fns {
		for _, b := range fn.Blocks {
			for _, in := range b.Instrs {
				switch x := in.(type) {
				case *ssa.Panic:
					key := fmt.Sprintf("%s|panic(%s)", fnKey(fn), valueDesc(x.X))
					if r := m.panicInfeasible(fn, x); r != "" {
						s.OK(rule, key, m.InstrPos(x), "%s", r)
					} else {
						s.Violation(rule, key, m.InstrPos(x), "explicit panic reachable from an API root in %s; its guard is not shown infeasible at every caller", fnKey(fn))
					}
				case ssa.CallInstruction:
					sc := x.Common().StaticCallee()
					if sc == nil {
						continue
					}
					full := fnFullName(sc)
					if fatalCalls[full] || (m.InModule(sc) && (canonFnName(sc) == "PanicOnError" || canonFnName(sc) == "FatalOnError")) {
						key := fmt.Sprintf("%s|call %s", fnKey(fn), canonFnName(sc))
						s.Violation(rule, key, m.InstrPos(x), "%s is called on a path reachable from an API root (%s): the process would exit or panic instead of returning an error", full, fnKey(fn))
					}
				}
			}
		}
	}
}

// panicInfeasible recognises: panic guarded by `reflect.ValueOf(p).Kind() != K`
// where every caller passes an argument under a dominating `reflect.TypeOf(arg).Kind() == K`.
func (m *Model) panicInfeasible(fn *ssa.Function, p *ssa.Panic) string {
	facts := expandFacts(factsAt(p.Block()))
	for _, f := range facts {
		b, ok := f.Cond.(*ssa.BinOp)
		if !ok || (b.Op != token.EQL && b.Op != token.NEQ) {
			continue
		}
		if (b.Op == token.NEQ) != f.Holds {
			continue // need "kind != K" to hold on the panic path
		}
		par, k, ok := reflectKindOfParam(b.X, b.Y, fn)
		if !ok {
			continue
		}
		node := m.CG.Nodes[fn]
		if node == nil || len(node.In) == 0 {
			return ""
		}
		pi := -1
		for i, q := range fn.Params {
			if q == par {
				pi = i
			}
		}
		n := 0
		for _, e := range node.In {
			if !m.InModule(e.Caller.Func) || isUserPkg(fnPkgPath(e.Caller.Func)) {
				return ""
			}
			args := e.Site.Common().Args
			if pi >= len(args) {
				return ""
			}
			cf := expandFacts(factsAt(e.Site.Block()))
			okSite := false
			for _, g := range cf {
				gb, ok := g.Cond.(*ssa.BinOp)
				if !ok || (gb.Op != token.EQL && gb.Op != token.NEQ) || (gb.Op == token.EQL) != g.Holds {
					continue
				}
				v, k2, ok := reflectKindOfValue(gb.X, gb.Y)
				if ok && k2 == k && v == args[pi] {
					okSite = true
				}
			}
			if !okSite {
				return ""
			}
			n++
		}
		return fmt.Sprintf("guard infeasible: panics only if the reflect kind of parameter %s differs from %d, and all %d call sites pass a value under a dominating test that its kind equals %d", par.Name(), k, n, k)
	}
	return ""
}

func reflectKindOfParam(x, y ssa.Value, fn *ssa.Function) (*ssa.Parameter, int64, bool) {
	v, k, ok := reflectKindOfValue(x, y)
	if !ok {
		return nil, 0, false
	}
	if mi, ok := v.(*ssa.MakeInterface); ok {
		v = mi.X
	}
	p, ok := v.(*ssa.Parameter)
	return p, k, ok
}

// reflectKindOfValue matches reflect.ValueOf(v).Kind() == K or reflect.TypeOf(v).Kind() == K.
func reflectKindOfValue(x, y ssa.Value) (ssa.Value, int64, bool) {
	c, ok := y.(*ssa.Const)
	call, ok2 := x.(*ssa.Call)
	if !ok || !ok2 {
		c, ok = x.(*ssa.Const)
		call, ok2 = y.(*ssa.Call)
		if !ok || !ok2 {
			return nil, 0, false
		}
	}
	if c.Value == nil || c.Value.Kind() != constant.Int {
		return nil, 0, false
	}
	k := c.Int64()
	var inner ssa.Value
	if call.Call.IsInvoke() && call.Call.Method.Name() == "Kind" {
		inner = call.Call.Value // reflect.Type
	} else if sc := call.Call.StaticCallee(); sc != nil && fnFullName(sc) == "(reflect.Value).Kind" {
		inner = call.Call.Args[0]
	} else {
		return nil, 0, false
	}
	ic, ok := inner.(*ssa.Call)
	if !ok {
		return nil, 0, false
	}
	sc := ic.Call.StaticCallee()
	if sc == nil || (fnFullName(sc) != "reflect.ValueOf" && fnFullName(sc) != "reflect.TypeOf") {
		return nil, 0, false
	}
	return ic.Call.Args[0], k, true
}

// ---------------------------------------------------------------------------
// R-NILOBJ

// mayReturnNilObj: module functions with an object.Object-compatible result
// that can return nil (constant nil, or the unchecked result of such a function).
func (m *Model) mayReturnNil() map[*ssa.Function]string {
	if m.nilRet != nil {
		return m.nilRet
	}
	res := map[*ssa.Function]string{}
	objT := m.objectIface()
	cands := []*ssa.Function{}
	for _, fn := range m.ModFns {
		if isUserPkg(fnPkgPath(fn)) || fn.Blocks == nil || fn.Signature.Results().Len() == 0 {
			continue
		}
		rt := fn.Signature.Results().At(0).Type()
		if objT == nil || !(types.Identical(rt, objT) || (isPtrToObjImpl(rt, objT))) {
			continue
		}
		cands = append(cands, fn)
	}
	for changed := true; changed; {
		changed = false
		for _, fn := range cands {
			if _, ok := res[fn]; ok {
				continue
			}
			a := m.NewArith(fn)
			for _, b := range fn.Blocks {
				ret, ok := b.Instrs[len(b.Instrs)-1].(*ssa.Return)
				if !ok || len(ret.Results) == 0 {
					continue
				}
				if why := m.valueMayBeNil(a, ret.Results[0], expandFacts(factsAt(b)), res, 0); why != "" {
					res[fn] = fmt.Sprintf("%s (return at %s)", why, m.InstrPos(ret))
					changed = true
					break
				}
			}
		}
	}
	m.nilRet = res
	return res
}

func (m *Model) objectIface() types.Type {
	op := m.SSA[fullPkg("object")]
	if op == nil {
		return nil
	}
	if tn, ok := op.Pkg.Scope().Lookup("Object").(*types.TypeName); ok {
		return tn.Type()
	}
	return nil
}

func isPtrToObjImpl(t types.Type, obj types.Type) bool {
	if _, ok := t.Underlying().(*types.Pointer); !ok {
		return false
	}
	it, ok := obj.Underlying().(*types.Interface)
	return ok && types.Implements(t, it)
}

// valueMayBeNil: can v be nil at this point? "" if not.
func (m *Model) valueMayBeNil(a *Arith, v ssa.Value, facts []Fact, nilFns map[*ssa.Function]string, d int) string {
	if d > 5 {
		return ""
	}
	if nilGuarded(a, v, facts) {
		return ""
	}
	switch x := v.(type) {
	case *ssa.Const:
		if x.IsNil() {
			return "returns constant nil"
		}
	case *ssa.MakeInterface:
		if _, isPtr := x.X.Type().Underlying().(*types.Pointer); isPtr {
			return m.valueMayBeNil(a, x.X, facts, nilFns, d+1)
		}
	case *ssa.ChangeInterface:
		return m.valueMayBeNil(a, x.X, facts, nilFns, d+1)
	case *ssa.Phi:
		for i, e := range x.Edges {
			ef := expandFacts(factsOnEdge(x.Block().Preds[i], x.Block()))
			if why := m.valueMayBeNil(a, e, append(ef, facts...), nilFns, d+1); why != "" {
				return why
			}
		}
	case *ssa.Call:
		for _, cal := range m.calleesOf(x) {
			if _, isNil := nilFns[cal]; isNil {
				if m.nilFreeForArgs(cal, x) {
					continue
				}
				return "returns the unchecked result of " + fnKey(cal) + ", which may be nil"
			}
		}
	}
	return ""
}

// nilFreeForArgs: partial evaluation of callee for the statically known dynamic
// type of its first argument: follows type-switch and reflect-kind branches and
// reports whether the return reached is non-nil.
func (m *Model) nilFreeForArgs(callee *ssa.Function, site *ssa.Call) bool {
	if len(callee.Params) != 1 || len(site.Call.Args) != 1 || callee.Blocks == nil {
		return false
	}
	T := staticDyn(site.Call.Args[0])
	if T == nil {
		return false
	}
	par := callee.Params[0]
	b := callee.Blocks[0]
	for steps := 0; steps < 200; steps++ {
		last := b.Instrs[len(b.Instrs)-1]
		switch t := last.(type) {
		case *ssa.Return:
			if len(t.Results) == 0 {
				return false
			}
			if c, ok := t.Results[0].(*ssa.Const); ok && c.IsNil() {
				return false
			}
			// result must not itself come from a may-nil callee
			if call, ok := t.Results[0].(*ssa.Call); ok {
				for _, cal := range m.calleesOf(call) {
					if _, isNil := m.nilRet[cal]; isNil {
						return false
					}
				}
			}
			return true
		case *ssa.Jump:
			b = b.Succs[0]
		case *ssa.If:
			truth, ok := m.evalCondForType(t.Cond, par, T)
			if !ok {
				return false
			}
			if truth {
				b = b.Succs[0]
			} else {
				b = b.Succs[1]
			}
		default:
			return false
		}
	}
	return false
}

func (m *Model) evalCondForType(c ssa.Value, par *ssa.Parameter, T types.Type) (bool, bool) {
	switch x := c.(type) {
	case *ssa.Extract:
		ta, ok := x.Tuple.(*ssa.TypeAssert)
		if !ok || x.Index != 1 || ta.X != ssa.Value(par) {
			return false, false
		}
		if types.IsInterface(ta.AssertedType) {
			it := ta.AssertedType.Underlying().(*types.Interface)
			return types.Implements(T, it), true
		}
		return types.Identical(T, ta.AssertedType), true
	case *ssa.BinOp:
		if x.Op != token.EQL && x.Op != token.NEQ {
			return false, false
		}
		// param == nil
		if x.X == ssa.Value(par) {
			if k, ok := x.Y.(*ssa.Const); ok && k.IsNil() {
				return x.Op == token.NEQ, true
			}
		}
		v, k, ok := reflectKindOfValue(x.X, x.Y)
		if !ok || v != ssa.Value(par) {
			return false, false
		}
		rk := reflectKind(T)
		if rk < 0 {
			return false, false
		}
		return (rk == k) == (x.Op == token.EQL), true
	}
	return false, false
}

// reflectKind: the reflect.Kind number of a static type (-1 unknown).
func reflectKind(t types.Type) int64 {
	switch u := t.Underlying().(type) {
	case *types.Basic:
		switch u.Kind() {
		case types.Bool:
			return 1
		case types.Int:
			return 2
		case types.Int8:
			return 3
		case types.Int16:
			return 4
		case types.Int32:
			return 5
		case types.Int64:
			return 6
		case types.Uint:
			return 7
		case types.Uint8:
			return 8
		case types.Uint16:
			return 9
		case types.Uint32:
			return 10
		case types.Uint64:
			return 11
		case types.Uintptr:
			return 12
		case types.Float32:
			return 13
		case types.Float64:
			return 14
		case types.String:
			return 24
		}
	case *types.Array:
		return 17
	case *types.Chan:
		return 18
	case *types.Signature:
		return 19
	case *types.Interface:
		return 20
	case *types.Map:
		return 21
	case *types.Pointer:
		return 22
	case *types.Slice:
		return 23
	case *types.Struct:
		return 25
	}
	return -1
}

// RunNilObj: every result of a may-return-nil producer is nil-tested before it
// is stored into a container, has a method invoked on it, or is passed on.
func (m *Model) RunNilObj(s *Sink, rule string, fns []*ssa.Function) {
	nilFns := m.mayReturnNil()
	for _, fn := range fns {
		a := m.NewArith(fn)
		for _, b := range fn.Blocks {
			for _, in := range b.Instrs {
				call, ok := in.(*ssa.Call)
				if !ok {
					continue
				}
				var prod *ssa.Function
				for _, cal := range m.calleesOf(call) {
					if _, isNil := nilFns[cal]; isNil && !m.nilFreeForArgs(cal, call) {
						prod = cal
					}
				}
				if prod == nil {
					continue
				}
				for _, use := range nilSensitiveUses(call) {
					key := fmt.Sprintf("%s|result of %s %s", fnKey(fn), prod.Name(), use.kind)
					if ret, isRet := use.at.(*ssa.Return); isRet {
						if _, selfNil := nilFns[fn]; selfNil {
							s.OK(rule, key, m.InstrPos(ret), "propagated: %s is itself classified as possibly returning nil and its callers are checked", fnKey(fn))
							continue
						}
					}
					facts := expandFacts(factsAt(use.at.Block()))
					if nilGuarded(a, call, facts) {
						s.OK(rule, key, m.InstrPos(use.at), "dominated by the non-nil edge of a nil test of the result")
						continue
					}
					s.Violation(rule, key, m.InstrPos(use.at), "the result of %s may be nil (%s) and is %s in %s without a nil test; a nil Object later panics when printed or inspected",
						fnKey(prod), nilFns[prod], use.kind, fnKey(fn))
				}
			}
		}
	}
	// reflect calls that can panic on values the checker does not model: only the reflect API whose preconditions the
	// other clauses establish (kind tests, IsNil/IsValid/IsExported, bounded indexes) may be used on these paths
	for _, fn := range fns {
		n := 0
		for _, b := range fn.Blocks {
			for _, in := range b.Instrs {
				call, ok := in.(*ssa.Call)
				if !ok || call.Call.StaticCallee() == nil {
					continue
				}
				name := fnFullName(call.Call.StaticCallee())
				if !strings.HasPrefix(name, "(reflect.Value).") && !strings.HasPrefix(name, "(*reflect.MapIter).") {
					continue
				}
				mname := name[strings.LastIndex(name, ".")+1:]
				if why, bad := reflectPanicky[mname]; bad {
					n++
					s.Violation(rule, fmt.Sprintf("%s|reflect %s #%d", fnKey(fn), mname, n), m.InstrPos(call), "%s calls reflect.Value.%s, which panics %s; the conversion of data must report unsupported values as an error, never panic", fnKey(fn), mname, why)
				}
			}
		}
	}
	// reflect Interface() receivers
	for _, fn := range fns {
		for _, b := range fn.Blocks {
			for _, in := range b.Instrs {
				call, ok := in.(*ssa.Call)
				if !ok {
					continue
				}
				sc := call.Call.StaticCallee()
				if sc == nil || fnFullName(sc) != "(reflect.Value).Interface" {
					continue
				}
				recv, ok := call.Call.Args[0].(*ssa.Call)
				if !ok || recv.Call.StaticCallee() == nil {
					continue
				}
				facts := expandFacts(factsAt(b))
				// the receiver comes out of a module helper (a function that follows a chain of pointers, ...): every
				// Elem() in the helper is made on a value tested with IsNil, or the result is tested with IsValid here
				if h := recv.Call.StaticCallee(); m.InModule(h) && h.Blocks != nil && strings.HasSuffix(types.TypeString(h.Signature.Results().At(0).Type(), nil), "reflect.Value") {
					key := fmt.Sprintf("%s|%s(...).Interface()", fnKey(fn), h.Name())
					unguarded := ""
					for _, hb := range h.Blocks {
						hf := expandFacts(factsAt(hb))
						for _, hin := range hb.Instrs {
							ec, isC := hin.(*ssa.Call)
							if !isC || ec.Call.StaticCallee() == nil || fnFullName(ec.Call.StaticCallee()) != "(reflect.Value).Elem" {
								continue
							}
							if !reflectFact(hf, "(reflect.Value).IsNil", ec.Call.Args[0], false) && unguarded == "" {
								unguarded = m.InstrPos(ec)
							}
						}
					}
					if unguarded == "" || reflectFact(facts, "(reflect.Value).IsValid", recv, true) {
						s.OK(rule, key, m.InstrPos(call), "every Elem() in %s is made on a value tested with IsNil (or the result is tested with IsValid)", h.Name())
					} else {
						s.Violation(rule, key, m.InstrPos(call), "%s calls Interface() on the result of %s, which takes Elem() of a pointer at %s without an IsNil() test: for a nil pointer anywhere in a chain (**T with a nil inner pointer) Elem() is the zero Value and Interface() panics", fnKey(fn), h.Name(), unguarded)
					}
					continue
				}
				switch fnFullName(recv.Call.StaticCallee()) {
				case "(reflect.Value).Elem":
					key := fmt.Sprintf("%s|Elem().Interface() on %s", fnKey(fn), valueDesc(recv.Call.Args[0]))
					if reflectFact(facts, "(reflect.Value).IsNil", recv.Call.Args[0], false) || reflectFact(facts, "(reflect.Value).IsValid", recv, true) {
						s.OK(rule, key, m.InstrPos(call), "dominated by an IsNil/IsValid test")
					} else {
						s.Violation(rule, key, m.InstrPos(call), "reflect.Value.Elem().Interface() in %s without a dominating IsNil()/IsValid() test: for a nil pointer Elem() is the zero Value and Interface() panics", fnKey(fn))
					}
				case "(reflect.Value).Field":
					key := fmt.Sprintf("%s|Field(i).Interface()", fnKey(fn))
					okExp := false
					for _, f := range facts {
						c, ok := f.Cond.(*ssa.Call)
						if ok && f.Holds && c.Call.StaticCallee() != nil && fnFullName(c.Call.StaticCallee()) == "(reflect.StructField).IsExported" {
							okExp = true
						}
					}
					if okExp {
						s.OK(rule, key, m.InstrPos(call), "dominated by the IsExported() test")
					} else {
						s.Violation(rule, key, m.InstrPos(call), "reflect.Value.Field(i).Interface() in %s without a dominating IsExported() test: Interface() panics on unexported fields", fnKey(fn))
					}
				}
			}
		}
	}
}

func reflectFact(facts []Fact, fname string, arg ssa.Value, holds bool) bool {
	for _, f := range facts {
		c, ok := f.Cond.(*ssa.Call)
		if !ok || f.Holds != holds {
			continue
		}
		sc := c.Call.StaticCallee()
		if sc == nil || fnFullName(sc) != fname || len(c.Call.Args) == 0 {
			continue
		}
		if sameReflectValue(c.Call.Args[0], arg) {
			return true
		}
	}
	return false
}

// sameReflectValue: identical SSA value, or both reflect.ValueOf of the same operand.
func sameReflectValue(x, y ssa.Value) bool {
	if x == y {
		return true
	}
	cx, ok1 := x.(*ssa.Call)
	cy, ok2 := y.(*ssa.Call)
	if !ok1 || !ok2 || cx.Call.StaticCallee() == nil || cy.Call.StaticCallee() == nil {
		return false
	}
	if fnFullName(cx.Call.StaticCallee()) == "reflect.ValueOf" && fnFullName(cy.Call.StaticCallee()) == "reflect.ValueOf" {
		return cx.Call.Args[0] == cy.Call.Args[0]
	}
	return false
}

// nilSensitiveUses: uses of a possibly-nil object that store it, invoke on it, return it or pass it on.
func nilSensitiveUses(v ssa.Value) []derefUse {
	var out []derefUse
	seen := map[ssa.Value]bool{}
	var walk func(x ssa.Value, d int)
	walk = func(x ssa.Value, d int) {
		if seen[x] || d > 3 || x.Referrers() == nil {
			return
		}
		seen[x] = true
		for _, r := range *x.Referrers() {
			switch u := r.(type) {
			case *ssa.MakeInterface:
				walk(u, d+1)
			case *ssa.ChangeInterface:
				walk(u, d+1)
			case *ssa.Phi:
				walk(u, d+1)
			case *ssa.Store:
				if u.Val == x {
					out = append(out, derefUse{u, "stored into " + valueDesc(u.Addr)})
				}
			case *ssa.MapUpdate:
				if u.Value == x {
					out = append(out, derefUse{u, "stored into map " + valueDesc(u.Map)})
				}
			case *ssa.Return:
				out = append(out, derefUse{u, "returned"})
			case ssa.CallInstruction:
				com := u.Common()
				if com.IsInvoke() && com.Value == x {
					out = append(out, derefUse{u, "the receiver of ." + com.Method.Name() + "()"})
					continue
				}
				for _, arg := range com.Args {
					if arg == x {
						out = append(out, derefUse{u, "passed to " + calleeName(com)})
						break
					}
				}
			}
		}
	}
	walk(v, 0)
	return out
}

// RunTypedNil: a pointer that may be nil must not be boxed into an interface without a nil test:
// the interface would be non-nil (typed nil) and every later `x == nil` check would miss it.
func (m *Model) RunTypedNil(s *Sink, rule string, fns []*ssa.Function) {
	nilFns := m.mayReturnNil()
	n := 0
	for _, fn := range fns {
		a := m.NewArith(fn)
		for _, b := range fn.Blocks {
			for _, in := range b.Instrs {
				mi, ok := in.(*ssa.MakeInterface)
				if !ok {
					continue
				}
				if _, isPtr := mi.X.Type().Underlying().(*types.Pointer); !isPtr {
					continue
				}
				call, ok := mi.X.(*ssa.Call)
				if !ok {
					continue
				}
				var prod *ssa.Function
				for _, cal := range m.calleesOf(call) {
					if _, isNil := nilFns[cal]; isNil {
						prod = cal
					}
				}
				if prod == nil {
					continue
				}
				n++
				key := fmt.Sprintf("%s|possibly-nil %s from %s is not boxed unchecked", fnKey(fn), typeStr(mi.X.Type()), prod.Name())
				if nilGuarded(a, call, expandFacts(factsAt(b))) {
					s.OK(rule, key, m.InstrPos(mi), "nil-tested before the conversion to an interface")
				} else {
					s.Violation(rule, key, m.InstrPos(mi), "%s converts the %s returned by %s, which may be nil (%s), to an interface without a nil test: the result is a non-nil interface holding a nil pointer, so the callers' `== nil` checks do not fire and the nil object is dereferenced later", fnKey(fn), typeStr(mi.X.Type()), fnKey(prod), nilFns[prod])
				}
			}
		}
	}
	s.OK(rule, "typed-nil|no possibly-nil pointer is boxed unchecked", "-", "%d conversions of possibly-nil pointers to interfaces examined", n)
}

// RunNilRet: a pointer result that is nil whenever an accompanying error result is non-nil must not be
// dereferenced before every such error has been tested.
func (m *Model) RunNilRet(s *Sink, rule string, fns []*ssa.Function) {
	// producers: functions with >= 2 results, result 0 a pointer, some return with nil result 0 and a non-nil error-like result j
	type prodInfo struct{ errIdx map[int]bool }
	prods := map[*ssa.Function]*prodInfo{}
	for _, fn := range m.ModFns {
		if fn.Blocks == nil || isUserPkg(fnPkgPath(fn)) || fn.Signature.Results().Len() < 2 {
			continue
		}
		if _, isPtr := fn.Signature.Results().At(0).Type().Underlying().(*types.Pointer); !isPtr {
			continue
		}
		pi := &prodInfo{errIdx: map[int]bool{}}
		for _, b := range fn.Blocks {
			ret, ok := b.Instrs[len(b.Instrs)-1].(*ssa.Return)
			if !ok || !isNilConst(ret.Results[0]) {
				continue
			}
			for j := 1; j < len(ret.Results); j++ {
				if isErrorLike(fn.Signature.Results().At(j).Type()) && !isNilConst(ret.Results[j]) {
					pi.errIdx[j] = true
				}
			}
		}
		if len(pi.errIdx) > 0 {
			prods[fn] = pi
		}
	}
	n := 0
	for _, fn := range fns {
		a := m.NewArith(fn)
		for _, b := range fn.Blocks {
			for _, in := range b.Instrs {
				call, ok := in.(*ssa.Call)
				if !ok || call.Call.StaticCallee() == nil {
					continue
				}
				pi := prods[call.Call.StaticCallee()]
				if pi == nil {
					continue
				}
				var ptr ssa.Value
				errs := map[int]ssa.Value{}
				for _, r := range *call.Referrers() {
					if ex, ok := r.(*ssa.Extract); ok {
						if ex.Index == 0 {
							ptr = ex
						} else if pi.errIdx[ex.Index] {
							errs[ex.Index] = ex
						}
					}
				}
				if ptr == nil {
					continue
				}
				for _, use := range derefUses(ptr) {
					n++
					key := fmt.Sprintf("%s|result of %s is used only after its errors were tested (%s)", fnKey(fn), canonFnName(call.Call.StaticCallee()), use.kind)
					facts := expandFacts(factsAt(use.at.Block()))
					ok := nilGuarded(a, ptr, facts)
					if !ok {
						ok = true
						for j := range pi.errIdx {
							ev, has := errs[j]
							if !has || !isNilFactFor(a, facts, ev) {
								ok = false
							}
						}
					}
					if ok {
						s.OK(rule, key, m.InstrPos(use.at), "dominated by the nil edge of every error result that can accompany a nil pointer")
					} else {
						s.Violation(rule, key, m.InstrPos(use.at), "%s uses the pointer returned by %s (%s) before all of its error results were tested: when the callee fails the pointer is nil and this is a nil dereference (e.g. a syntactically wrong layout file)", fnKey(fn), fnKey(call.Call.StaticCallee()), use.kind)
					}
				}
			}
		}
	}
	s.OK(rule, "nil-with-error|pointer results are used only after their errors were tested", "-", "%d producers returning (nil, error); %d uses examined", len(prods), n)
}

// isNilFactFor: facts establish v == nil.
func isNilFactFor(a *Arith, facts []Fact, v ssa.Value) bool {
	vk := a.canonKey(v)
	for _, f := range facts {
		b, ok := f.Cond.(*ssa.BinOp)
		if !ok || (b.Op != token.EQL && b.Op != token.NEQ) {
			continue
		}
		var other ssa.Value
		if a.canonKey(b.X) == vk {
			other = b.Y
		} else if a.canonKey(b.Y) == vk {
			other = b.X
		} else {
			continue
		}
		if c, ok := other.(*ssa.Const); ok && c.IsNil() && (b.Op == token.EQL) == f.Holds {
			return true
		}
	}
	return false
}

// reflectPanicky: reflect.Value methods whose panic conditions depend on the shape of the data (not on a kind the
// surrounding code tests): using them on caller-supplied data needs its own proof, which this checker does not attempt.
var reflectPanicky = map[string]string{
	"FieldByIndex":    "on a nil embedded pointer along the index path (use FieldByIndexErr)",
	"FieldByName":     "on a nil embedded pointer when the field is promoted through it",
	"FieldByNameFunc": "on a nil embedded pointer when the field is promoted through it",
	"Call":            "if the function panics or the arguments do not fit",
	"CallSlice":       "if the function panics or the arguments do not fit",
	"Convert":         "if the value is not convertible",
	"Slice":           "if the bounds are out of range",
	"Slice3":          "if the bounds are out of range",
	"Method":          "if the index is out of range",
	"Addr":            "if the value is not addressable",
	"UnsafeAddr":      "if the value is not addressable",
	"Recv":            "on a non-channel",
	"Send":            "on a non-channel",
	"Close":           "on a non-channel",
}

// RunOkObj — R-NILOBJ (comma-ok lookups): a module function with the results (object, found) — Env.Get — yields a nil
// object when it did not find one. Where such a result is stored, passed on, returned or called on, the found flag of
// that very call is known to be true, or the object was tested against nil: `parent, _ := env.Get("loop")` stored as a
// property puts a Go nil among the objects, which panics when the property is printed, dumped or tested.
func (m *Model) RunOkObj(s *Sink, rule string, fns []*ssa.Function) {
	objT := m.objectIface()
	if objT == nil {
		s.Undecided(rule, "object.Object", "-", "not found")
		return
	}
	// a lookup: (object, found), and the object can be nil — a constant nil, what a map lookup yields, or what another
	// lookup yields (a function that returns an evaluated object and a verdict is not one)
	memo := map[*ssa.Function]int{}
	var isLookup func(f *ssa.Function) bool
	isLookup = func(f *ssa.Function) bool {
		r := f.Signature.Results()
		if !m.InModule(f) || f.Blocks == nil || r.Len() != 2 || !types.Identical(r.At(0).Type(), objT) || !isBoolT(r.At(1).Type()) {
			return false
		}
		if v, done := memo[f]; done {
			return v == 1
		}
		memo[f] = 2
		var mayNil func(v ssa.Value, d int) bool
		mayNil = func(v ssa.Value, d int) bool {
			if d > 4 {
				return false
			}
			switch x := v.(type) {
			case *ssa.Const:
				return x.IsNil()
			case *ssa.Lookup:
				return true
			case *ssa.Phi:
				for _, e := range x.Edges {
					if mayNil(e, d+1) {
						return true
					}
				}
			case *ssa.Extract:
				if _, isLk := x.Tuple.(*ssa.Lookup); isLk && x.Index == 0 {
					return true
				}
				if c, isC := x.Tuple.(*ssa.Call); isC && x.Index == 0 {
					for _, cal := range m.calleesOf(c) {
						if cal == f || isLookup(cal) {
							return true
						}
					}
				}
			}
			return false
		}
		for _, b := range f.Blocks {
			if ret, isRet := b.Instrs[len(b.Instrs)-1].(*ssa.Return); isRet && len(ret.Results) == 2 && mayNil(retSource(ret, 0), 0) {
				memo[f] = 1
				return true
			}
		}
		return false
	}
	n := 0
	for _, fn := range fns {
		a := m.NewArith(fn)
		for _, b := range fn.Blocks {
			for _, in := range b.Instrs {
				call, ok := in.(*ssa.Call)
				if !ok {
					continue
				}
				var prod *ssa.Function
				for _, cal := range m.calleesOf(call) {
					if isLookup(cal) {
						prod = cal
					}
				}
				if prod == nil || call.Referrers() == nil {
					continue
				}
				var obj, found ssa.Value
				for _, r := range *call.Referrers() {
					if ex, isEx := r.(*ssa.Extract); isEx {
						if ex.Index == 0 {
							obj = ex
						} else {
							found = ex
						}
					}
				}
				if obj == nil {
					continue
				}
				for _, use := range nilSensitiveUses(obj) {
					n++
					key := fmt.Sprintf("%s|object found by %s %s", fnKey(fn), prod.Name(), use.kind)
					if ret, isRet := use.at.(*ssa.Return); isRet && isLookup(fn) {
						_ = ret
						s.OK(rule, key, m.InstrPos(use.at), "handed up together with its found flag by a lookup of the same form")
						continue
					}
					facts := expandFacts(factsAt(use.at.Block()))
					guarded := nilGuarded(a, obj, facts)
					for _, f := range facts {
						if found != nil && f.Cond == found && f.Holds {
							guarded = true
						}
					}
					if guarded {
						s.OK(rule, key, m.InstrPos(use.at), "under the found flag of that call (or a nil test of the object)")
					} else {
						s.Violation(rule, key, m.InstrPos(use.at), "the object %s returns is nil when nothing was found, and here it is %s in %s without the found flag having been tested: a Go nil among the objects panics when it is printed, dumped, compared or tested", fnKey(prod), use.kind, fnKey(fn))
					}
				}
			}
		}
	}
	if n < 2 {
		s.Note(rule, "comma-ok lookups", "-", "%d uses of the object of an (object, found) lookup (on the pinned tree: Env.Get in Set and in the identifier evaluation)", n)
	}
}

// RunNilFuncCall: a function value taken out of a map and called. The zero value of a function type is nil, and
// calling nil panics: the call is made where the lookup's found flag holds or the value was tested against nil.
func (m *Model) RunNilFuncCall(s *Sink, rule string, fns []*ssa.Function) {
	n := 0
	for _, fn := range fns {
		if fn.Blocks == nil {
			continue
		}
		for _, b := range fn.Blocks {
			for _, in := range b.Instrs {
				ci, ok := in.(ssa.CallInstruction)
				if !ok || ci.Common().IsInvoke() || ci.Common().StaticCallee() != nil {
					continue
				}
				v := ci.Common().Value
				var lk *ssa.Lookup
				var tuple ssa.Value
				switch x := v.(type) {
				case *ssa.Lookup:
					lk = x
				case *ssa.Extract:
					if l, isL := x.Tuple.(*ssa.Lookup); isL && x.Index == 0 {
						lk, tuple = l, x.Tuple
					}
				}
				if lk == nil {
					continue
				}
				if _, isMap := lk.X.Type().Underlying().(*types.Map); !isMap {
					continue
				}
				n++
				key := fmt.Sprintf("%s|function value looked up in %s is called where it was found", fnKey(fn), valueDesc(lk.X))
				guarded := false
				for _, f := range pointOf(in).facts {
					if ex, isEx := f.Cond.(*ssa.Extract); isEx && tuple != nil && ex.Tuple == tuple && ex.Index == 1 && f.Holds {
						guarded = true
					}
					if bo, isBo := f.Cond.(*ssa.BinOp); isBo && (bo.Op == token.NEQ || bo.Op == token.EQL) {
						for _, pr := range [][2]ssa.Value{{bo.X, bo.Y}, {bo.Y, bo.X}} {
							if k, isK := pr[1].(*ssa.Const); isK && k.IsNil() && pr[0] == v && (bo.Op == token.NEQ) == f.Holds {
								guarded = true
							}
						}
					}
				}
				// a predicate of the module asked first with the same key and the holder of the table: each of its returns
				// is false or "the entry under the key is not nil" (which table goes with which kind is R-REGISTRY's, C20)
				if !guarded {
					_, mapPath, okMP := pathOf(lk.X)
					for _, f := range pointOf(in).facts {
						pc, isCall := f.Cond.(*ssa.Call)
						if !isCall || !f.Holds || pc.Call.StaticCallee() == nil || !m.InModule(pc.Call.StaticCallee()) || pc.Call.StaticCallee().Blocks == nil {
							continue
						}
						pf := pc.Call.StaticCallee()
						keyArg, holder := -1, false
						for i, a := range pc.Call.Args {
							if a == lk.Index {
								keyArg = i
							}
							if _, ap, okA := pathOf(a); okA && okMP && ap != "" && strings.HasPrefix(mapPath, ap) {
								holder = true
							}
						}
						if keyArg < 0 || !holder || keyArg >= len(pf.Params) {
							continue
						}
						exact := true
						for _, pb := range pf.Blocks {
							r, isR := pb.Instrs[len(pb.Instrs)-1].(*ssa.Return)
							if !isR || len(r.Results) != 1 {
								continue
							}
							if k, isK := r.Results[0].(*ssa.Const); isK && k.Value != nil && !constant.BoolVal(k.Value) {
								continue
							}
							okRet := false
							if bo, isBo := r.Results[0].(*ssa.BinOp); isBo && bo.Op == token.NEQ {
								if k, isK := bo.Y.(*ssa.Const); isK && k.IsNil() {
									if l2, isL := bo.X.(*ssa.Lookup); isL && l2.Index == ssa.Value(pf.Params[keyArg]) {
										okRet = true
									}
								}
							}
							if !okRet {
								exact = false
							}
						}
						if exact {
							guarded = true
						}
					}
				}
				// the predicate is asked by the callers of a helper that makes the call (`callCustomFunc(name, ...)` under
				// `if hasCustomFunc(..., name)`): every static call site of this function is guarded that way
				if !guarded {
					kroot, kpath, kok := pathOf(lk.Index)
					if par, isPar := lk.Index.(*ssa.Parameter); isPar {
						kroot, kpath, kok = par, "", true
					}
					if kp, isKP := kroot.(*ssa.Parameter); isKP && kok {
						kIdx := -1
						for i, q := range fn.Params {
							if q == kp {
								kIdx = i
							}
						}
						node := m.CG.Nodes[fn]
						all := kIdx >= 0 && node != nil && len(node.In) > 0
						if all {
							for _, e := range node.In {
								if e.Site == nil || e.Site.Common().StaticCallee() != fn || kIdx >= len(e.Site.Common().Args) {
									all = false
									break
								}
								keyVal := e.Site.Common().Args[kIdx]
								siteOK := false
								for _, f := range pointOf(e.Site).facts {
									pc, isCall := f.Cond.(*ssa.Call)
									if !isCall || !f.Holds || pc.Call.StaticCallee() == nil || !m.InModule(pc.Call.StaticCallee()) || pc.Call.StaticCallee().Blocks == nil {
										continue
									}
									pf := pc.Call.StaticCallee()
									keyArg := -1
									vroot, vpath, vok := pathOf(keyVal)
									if !vok {
										vroot, vpath = keyVal, ""
									}
									for i, a := range pc.Call.Args {
										if a == keyVal && kpath == "" {
											keyArg = i
										}
										if ar, ap, aok := pathOf(a); aok && ar == vroot && ap == vpath+kpath {
											keyArg = i
										}
									}
									if keyArg < 0 || keyArg >= len(pf.Params) {
										continue
									}
									exact := true
									for _, pb := range pf.Blocks {
										r, isR := pb.Instrs[len(pb.Instrs)-1].(*ssa.Return)
										if !isR || len(r.Results) != 1 {
											continue
										}
										if k, isK := r.Results[0].(*ssa.Const); isK && k.Value != nil && !constant.BoolVal(k.Value) {
											continue
										}
										okRet := false
										if bo, isBo := r.Results[0].(*ssa.BinOp); isBo && bo.Op == token.NEQ {
											if k, isK := bo.Y.(*ssa.Const); isK && k.IsNil() {
												if l2, isL := bo.X.(*ssa.Lookup); isL && l2.Index == ssa.Value(pf.Params[keyArg]) {
													okRet = true
												}
											}
										}
										if !okRet {
											exact = false
										}
									}
									if exact {
										siteOK = true
									}
								}
								if !siteOK {
									all = false
								}
							}
						}
						if all {
							guarded = true
						}
					}
				}
				if guarded {
					s.OK(rule, key, m.InstrPos(in), "under the found flag of the lookup, a test against nil, or a predicate that answers whether the entry under this key is there")
				} else {
					s.Violation(rule, key, m.InstrPos(in), "%s calls the function it looked up in %s without having tested that the key was there: for a key the table does not hold the value is nil, and calling it panics (an operator or a name taken from the template selects the key)", fnKey(fn), valueDesc(lk.X))
				}
			}
		}
	}
	s.Note(rule, "function values taken out of maps and called", "-", "%d sites", n)
}

// RunHashableKeys: a map whose key type is an interface panics ("hash of unhashable type") when it is indexed with a
// value whose dynamic type is a slice, a map or a function. The Go values of template objects are exactly that for
// arrays and objects (`Val()` of an Array is []any). Every lookup, update or delete on such a map on a render path
// uses a key whose static type under the interface is known and hashable (a constant, a string, a number, a pointer).
func (m *Model) RunHashableKeys(s *Sink, rule string, fns []*ssa.Function) {
	hashableUnder := func(v ssa.Value) bool {
		switch x := v.(type) {
		case *ssa.Const:
			return true
		case *ssa.MakeInterface:
			switch x.X.Type().Underlying().(type) {
			case *types.Basic, *types.Pointer, *types.Chan:
				return true
			}
			return false
		}
		return false
	}
	n := 0
	for _, fn := range fns {
		if fn.Blocks == nil || !m.InModule(fn) {
			continue
		}
		for _, b := range fn.Blocks {
			for _, in := range b.Instrs {
				var mp, key ssa.Value
				switch x := in.(type) {
				case *ssa.MapUpdate:
					mp, key = x.Map, x.Key
				case *ssa.Lookup:
					mp, key = x.X, x.Index
				case *ssa.Call:
					if bi, isB := x.Call.Value.(*ssa.Builtin); isB && bi.Name() == "delete" && len(x.Call.Args) == 2 {
						mp, key = x.Call.Args[0], x.Call.Args[1]
					}
				}
				if mp == nil {
					continue
				}
				mt, isMap := mp.Type().Underlying().(*types.Map)
				if !isMap {
					continue
				}
				if _, isIface := mt.Key().Underlying().(*types.Interface); !isIface {
					continue
				}
				n++
				k := fmt.Sprintf("%s|key of %s is hashable", fnKey(fn), valueDesc(mp))
				if hashableUnder(key) {
					s.OK(rule, k, m.InstrPos(in), "the key is a constant or a value of a hashable static type")
				} else {
					s.Violation(rule, k, m.InstrPos(in), "%s indexes the map %s, whose key type is an interface, with %s: when the value under the interface is a slice or a map (the Go value of an array or an object) the map operation panics with \"hash of unhashable type\"", fnKey(fn), valueDesc(mp), valueDesc(key))
				}
			}
		}
	}
	s.Note(rule, "maps keyed by an interface on render paths", "-", "%d operations", n)
}
