package main

// rule_kinds.go — R-KINDS (C12): the Go-value conversion covers the specified kinds and nothing silently.

import (
	"fmt"
	"go/constant"
	"go/token"
	"go/types"
	"sort"
	"strings"

	"golang.org/x/tools/go/ssa"
)

var specGoTypes = map[string]string{
	"string": "*object.Str", "bool": "*object.Bool", "float32": "*object.Float", "float64": "*object.Float",
	"int": "*object.Int", "int8": "*object.Int", "int16": "*object.Int", "int32": "*object.Int", "int64": "*object.Int",
	"uint": "*object.Int", "uint8": "*object.Int", "uint16": "*object.Int", "uint32": "*object.Int", "uint64": "*object.Int",
}

var specReflectKinds = map[int64]string{25: "Struct", 23: "Slice", 21: "Map", 22: "Pointer"}

func (m *Model) RunKinds(s *Sink, rule string) {
	fn := m.PkgFunc("object", "NativeToObject")
	if fn == nil || len(fn.Params) != 1 {
		s.Undecided(rule, "NativeToObject", "-", "object.NativeToObject(val) not found")
		return
	}
	fk := fnKey(fn)
	// the conversion depends on the value, never on where it lives: no function on the conversion path asks reflect for
	// an address (a memo keyed by Value.Pointer() makes two slices that share their first element one value)
	nAddr := 0
	for f := range m.Reach([]*ssa.Function{fn}) {
		if f.Blocks == nil || !m.InModule(f) {
			continue
		}
		for _, b := range f.Blocks {
			for _, in := range b.Instrs {
				c, ok := in.(*ssa.Call)
				if !ok || c.Call.StaticCallee() == nil {
					continue
				}
				switch fnFullName(c.Call.StaticCallee()) {
				case "(reflect.Value).Pointer", "(reflect.Value).UnsafePointer", "(reflect.Value).UnsafeAddr", "(reflect.Value).Addr":
					nAddr++
					s.Violation(rule, fmt.Sprintf("%s|conversion asks for an address #%d", fnKey(f), nAddr), m.InstrPos(c), "%s calls %s on the conversion path of data: the result of converting a value must not depend on its address (slices of different length can share it, and caches keyed by it outlive the data)", fnKey(f), fnFullName(c.Call.StaticCallee()))
				}
			}
		}
	}
	if nAddr == 0 {
		s.OK(rule, fk+"|conversion is by value", m.Pos(fn.Pos()), "no reflect address accessor (Pointer, UnsafePointer, UnsafeAddr, Addr) is reachable from NativeToObject")
	}
	gotTypes := map[string]string{}
	gotKinds := map[int64]bool{}
	type kindCaseAt struct {
		b   *ssa.BasicBlock
		par *ssa.Parameter
	}
	kindCase := map[int64]kindCaseAt{} // the block a comparison of the value's kind with this constant leads to
	nilCase := false
	// the conversion and the helpers of its package it hands the value on to unchanged (scalars / composites / pointers
	// split into functions of their own): each is read with its own parameter in the role of the value
	type fp struct {
		fn  *ssa.Function
		par *ssa.Parameter
	}
	work := []fp{{fn, fn.Params[0]}}
	seenFP := map[*ssa.Function]bool{fn: true}
	var convFns []*ssa.Function
	for wi := 0; wi < len(work); wi++ {
		cur := work[wi]
		convFns = append(convFns, cur.fn)
		for _, b := range cur.fn.Blocks {
			for _, in := range b.Instrs {
				c, ok := in.(*ssa.Call)
				if !ok || c.Call.StaticCallee() == nil || !inPkg(c.Call.StaticCallee(), "object") || seenFP[c.Call.StaticCallee()] || c.Call.StaticCallee().Blocks == nil {
					continue
				}
				for i, a := range c.Call.Args {
					if a == ssa.Value(cur.par) && i < len(c.Call.StaticCallee().Params) && len(c.Call.StaticCallee().Params) == 1 {
						seenFP[c.Call.StaticCallee()] = true
						work = append(work, fp{c.Call.StaticCallee(), c.Call.StaticCallee().Params[i]})
					}
				}
			}
		}
	}
	for _, cur := range work {
		par := cur.par
		for _, b := range cur.fn.Blocks {
			iff, ok := b.Instrs[len(b.Instrs)-1].(*ssa.If)
			if !ok {
				continue
			}
			switch c := iff.Cond.(type) {
			case *ssa.Extract:
				ta, ok := c.Tuple.(*ssa.TypeAssert)
				if !ok || c.Index != 1 || ta.X != ssa.Value(par) {
					continue
				}
				// the case block: what object does it return, and is its payload the asserted value (converted)?
				var val ssa.Value
				for _, r := range *ta.Referrers() {
					if ex, ok := r.(*ssa.Extract); ok && ex.Index == 0 {
						val = ex
					}
				}
				res := caseResult(b.Succs[0], val, par, ta.AssertedType)
				gotTypes[types.TypeString(ta.AssertedType, nil)] = res
			case *ssa.BinOp:
				if c.Op == token.EQL && c.X == ssa.Value(par) {
					if k, ok := c.Y.(*ssa.Const); ok && k.IsNil() {
						nilCase = strings.HasPrefix(caseResult(b.Succs[0], nil), "*object.Nil")
					}
				}
				if v, k, ok := reflectKindOfValue(c.X, c.Y); ok && v == ssa.Value(par) && c.Op == token.EQL {
					gotKinds[k] = true
					kindCase[k] = kindCaseAt{b.Succs[0], par}
				}
			}
		}
	}
	var ks []string
	for k := range specGoTypes {
		ks = append(ks, k)
	}
	sort.Strings(ks)
	for _, k := range ks {
		key := fmt.Sprintf("%s|Go type %s", fk, k)
		got, ok := gotTypes[k]
		if !ok {
			// no case of a type switch: the dispatch on the value's kind has a case for the kind of this type, and
			// that case builds the object from the reflect accessor of the kind (named and plain types alike)
			if bt, isB := types.Universe.Lookup(k).Type().(*types.Basic); isB {
				kindOf := map[types.BasicKind]int64{types.Bool: 1, types.Int: 2, types.Int8: 3, types.Int16: 4, types.Int32: 5, types.Int64: 6, types.Uint: 7, types.Uint8: 8, types.Uint16: 9, types.Uint32: 10, types.Uint64: 11, types.Float32: 13, types.Float64: 14, types.String: 24}
				if kc, have := kindCase[kindOf[bt.Kind()]]; have {
					got, ok = caseResult(kc.b, nil, ssa.Value(kc.par), types.Type(bt)), true
				}
			}
		}
		switch {
		case !ok:
			s.Violation(rule, key, m.Pos(fn.Pos()), "NativeToObject has no case for Go type %s: such a value in the data is reported as unsupported (or takes the reflection path) instead of being visible as a number/string/boolean", k)
		case got == specGoTypes[k]+" payload":
			s.OK(rule, key, m.Pos(fn.Pos()), "converted to %s holding the (widened) value", specGoTypes[k])
		default:
			s.Violation(rule, key, m.Pos(fn.Pos()), "Go type %s is converted to `%s`, expected %s holding the value itself", k, got, specGoTypes[k])
		}
	}
	if nilCase {
		s.OK(rule, fk+"|nil", m.Pos(fn.Pos()), "nil converts to *object.Nil")
	} else {
		s.Violation(rule, fk+"|nil", m.Pos(fn.Pos()), "nil in the data is not converted to *object.Nil before reflect.TypeOf is consulted (nil has no type: Kind() would panic)")
	}
	for k, name := range specReflectKinds {
		key := fmt.Sprintf("%s|reflect kind %s", fk, name)
		if gotKinds[k] {
			s.OK(rule, key, m.Pos(fn.Pos()), "handled")
		} else {
			s.Violation(rule, key, m.Pos(fn.Pos()), "NativeToObject has no case for reflect kind %s: %ss in the data are reported as unsupported", name, strings.ToLower(name))
		}
	}
	// only nil itself and a nil pointer are nil in a template: every `&Nil{}` the converter (or a private helper of it)
	// returns lies under `val == nil` or under the Pointer kind — a nil slice is an empty array and a nil map an empty
	// object (truthy, iterable, with @else), like the empty literals
	{
		kindIs := func(f Fact, want int64) bool {
			bo, ok := f.Cond.(*ssa.BinOp)
			if !ok || (bo.Op != token.EQL && bo.Op != token.NEQ) || (bo.Op == token.EQL) != f.Holds {
				return false
			}
			// the kind of a reflect value / type of anything, compared with the wanted kind
			for _, pr := range [][2]ssa.Value{{bo.X, bo.Y}, {bo.Y, bo.X}} {
				k, isK := pr[1].(*ssa.Const)
				c, isC := pr[0].(*ssa.Call)
				if !isK || !isC || k.Value == nil || k.Value.Kind() != constant.Int || k.Int64() != want {
					continue
				}
				if c.Call.IsInvoke() && c.Call.Method.Name() == "Kind" {
					return true
				}
				if sc := c.Call.StaticCallee(); sc != nil && fnFullName(sc) == "(reflect.Value).Kind" {
					return true
				}
			}
			return false
		}
		nilT := m.namedType("object", "Nil")
		badAt := ""
		nNil := 0
		for _, hf := range m.helpersOf(fn) {
			for _, b := range hf.Blocks {
				ret, isRet := b.Instrs[len(b.Instrs)-1].(*ssa.Return)
				if !isRet || len(ret.Results) == 0 {
					continue
				}
				al, isAl := stripIface(ret.Results[0]).(*ssa.Alloc)
				if !isAl || nilT == nil {
					continue
				}
				if pn := ptrNamed(al.Type()); pn == nil || !types.Identical(pn, nilT) {
					continue
				}
				nNil++
				guard := func(gb *ssa.BasicBlock) bool {
					for _, f := range expandFacts(factsAt(gb)) {
						if bo, isBo := f.Cond.(*ssa.BinOp); isBo && bo.Op == token.EQL && f.Holds && isNilConst(bo.Y) {
							if _, isPar := bo.X.(*ssa.Parameter); isPar {
								return true
							}
						}
						if kindIs(f, 22) {
							return true
						}
					}
					return false
				}
				// here, or — for a helper that handles one kind — at every call of the helper
				ok, _ := m.guardedLifting(ret, guard, 0)
				if !ok && badAt == "" {
					badAt = m.InstrPos(ret)
				}
			}
		}
		key := fk + "|only nil and nil pointers become nil"
		switch {
		case nNil == 0:
			s.Undecided(rule, key, m.Pos(fn.Pos()), "no return of an *object.Nil found in NativeToObject")
		case badAt != "":
			s.Violation(rule, key, badAt, "NativeToObject returns the nil object at %s for a value that is neither nil nor known to be a pointer: a nil slice or map in the data becomes nil — falsy in @if, an error in @each — instead of an empty array / object (truthy, iterable, rendering @else), which is what the empty literal and `[]T{}` are", badAt)
		default:
			s.OK(rule, key, m.Pos(fn.Pos()), "%d returns of the nil object, each under `val == nil` or under the Pointer kind", nNil)
		}
	}
	// fall-through returns nil
	last := false
	for _, cf := range convFns {
		for _, b := range cf.Blocks {
			if r, ok := b.Instrs[len(b.Instrs)-1].(*ssa.Return); ok {
				if k, ok := r.Results[0].(*ssa.Const); ok && k.IsNil() {
					last = true
				}
			}
		}
	}
	if last {
		s.OK(rule, fk+"|other kinds yield nil", m.Pos(fn.Pos()), "every other kind returns nil, which the callers turn into the unsupported-type error (R-NILOBJ)")
	} else {
		s.Violation(rule, fk+"|other kinds yield nil", m.Pos(fn.Pos()), "NativeToObject never returns nil: values of unsupported kinds are converted to something instead of making the call fail")
	}
	// map keys must be strings
	nm := m.PkgFunc("object", "nativeMapToObject")
	if nm != nil {
		okKey := false
		for _, b := range nm.Blocks {
			for _, in := range b.Instrs {
				c, ok := in.(*ssa.Call)
				if !ok || c.Call.StaticCallee() == nil || fnFullName(c.Call.StaticCallee()) != "(reflect.Value).String" {
					continue
				}
				for _, f := range expandFacts(factsAt(b)) {
					if bo, ok := f.Cond.(*ssa.BinOp); ok {
						if kc, ok := bo.Y.(*ssa.Const); ok && kc.Value != nil && kc.Value.Kind() == constant.Int && kc.Int64() == 24 {
							// Kind() == String holds, or Kind() != String does not hold
							if (bo.Op == token.EQL) == f.Holds {
								okKey = true
							}
						}
					}
				}
			}
		}
		if okKey {
			s.OK(rule, fnKey(nm)+"|only string-keyed maps", m.Pos(nm.Pos()), "key.String() is used only after the key kind was tested to be String")
		} else {
			s.Violation(rule, fnKey(nm)+"|only string-keyed maps", m.Pos(nm.Pos()), "map keys are turned into property names with reflect.Value.String() without testing that the key kind is String: a map[int]T is accepted with keys like \"<int Value>\"")
		}
	}
	// ... and that test covers every map, also one without entries: each object returned is returned under it
	if nm != nil {
		okAll, nRet := true, 0
		for _, b := range nm.Blocks {
			ret, isRet := b.Instrs[len(b.Instrs)-1].(*ssa.Return)
			if !isRet || len(ret.Results) != 1 || isNilConst(stripIface(ret.Results[0])) {
				continue
			}
			nRet++
			under := false
			for _, f := range expandFacts(factsAt(b)) {
				if bo, ok := f.Cond.(*ssa.BinOp); ok {
					if kc, ok := bo.Y.(*ssa.Const); ok && kc.Value != nil && kc.Value.Kind() == constant.Int && kc.Int64() == 24 && (bo.Op == token.EQL) == f.Holds {
						under = true
					}
				}
			}
			if !under {
				okAll = false
			}
		}
		if okAll && nRet > 0 {
			s.OK(rule, fnKey(nm)+"|a map with another key type is refused whatever it holds", m.Pos(nm.Pos()), "every return of an object is dominated by the key-kind == String test")
		} else {
			s.Violation(rule, fnKey(nm)+"|a map with another key type is refused whatever it holds", m.Pos(nm.Pos()), "%s can return an object on a path on which the key kind was not tested (e.g. the test sits inside the loop over the entries): an empty or nil map[int]T is accepted as an empty object instead of making the call fail", fnKey(nm))
		}
	}
	// no reflect setter anywhere in the library
	if !isReflectSetter("(reflect.Value).SetInt") || isReflectSetter("(reflect.Value).Interface") {
		s.Undecided(rule, "reflect setters|matcher self-check", "-", "the reflect-setter matcher is broken")
	}
	nset := 0
	for _, f := range m.ModFns {
		if isUserPkg(fnPkgPath(f)) || f.Blocks == nil {
			continue
		}
		for _, b := range f.Blocks {
			for _, in := range b.Instrs {
				if c, ok := in.(ssa.CallInstruction); ok {
					if sc := c.Common().StaticCallee(); sc != nil && isReflectSetter(fnFullName(sc)) {
						nset++
						s.Violation(rule, fnKey(f)+"|reflect setter", m.InstrPos(in), "%s calls %s: the caller's data can be modified through reflection", fnKey(f), fnFullName(sc))
					}
				}
			}
		}
	}
	if nset == 0 {
		s.OK(rule, "reflect setters|none in the library", "-", "no call to a reflect.Value setter in any library function (matcher checked against a positive example)")
	}
	// property lookup: exact key, then first letter upper-cased, then error
	oi := m.Method("evaluator", "Evaluator", "evalObjectIndexExp")
	if oi == nil {
		s.Undecided(rule, "evalObjectIndexExp", "-", "not found")
		return
	}
	var lookups []*ssa.Lookup
	for _, b := range oi.Blocks {
		for _, in := range b.Instrs {
			if lk, ok := in.(*ssa.Lookup); ok && lk.CommaOk && strings.HasSuffix(fieldPathOf(lk.X), ".Pairs") {
				lookups = append(lookups, lk)
			}
		}
	}
	ok1, ok2 := false, false
	for _, lk := range lookups {
		if _, isParam := lk.Index.(*ssa.Parameter); isParam {
			ok1 = true
		}
		if bo, ok := lk.Index.(*ssa.BinOp); ok && bo.Op == token.ADD {
			if c, ok := bo.X.(*ssa.Call); ok && c.Call.StaticCallee() != nil && fnFullName(c.Call.StaticCallee()) == "strings.ToUpper" {
				ok2 = true
			}
		}
	}
	// decided by cases when possible: the lookup function evaluated on an object with the properties Name, other
	// and Élan, asked for name, Name, other, élan and a name that is not there
	decidedOK := false
	if objT, errT := m.namedType("object", "Obj"), m.namedType("object", "Error"); objT != nil && errT != nil && len(oi.Params) >= 3 {
		fPairs := -1
		ost := objT.Underlying().(*types.Struct)
		for i := 0; i < ost.NumFields(); i++ {
			if canonFieldName(objT, i, ost.Field(i).Name()) == "Pairs" {
				fPairs = i
			}
		}
		vals := map[string]any{}
		mk := func(name string) any { return iObj{"value of " + name} }
		mp := &iMap{vals: map[string]any{}, kval: map[string]constant.Value{}}
		for _, k := range []string{"Name", "other", "Élan", "N"} {
			kc := constant.MakeString(k)
			vals[k] = mk(k)
			mp.keys = append(mp.keys, kc.ExactString())
			mp.vals[kc.ExactString()] = vals[k]
			mp.kval[kc.ExactString()] = kc
		}
		all, n := fPairs >= 0, 0
		for _, tc := range []struct{ ask, want string }{{"name", "Name"}, {"Name", "Name"}, {"other", "other"}, {"élan", "Élan"}, {"Élan", "Élan"}, {"n", "N"}, {"N", "N"}, {"zzz", ""}, {"Other", ""}, {"", ""}, {"x", ""}} {
			if !all {
				break
			}
			obj := &iStruct{typ: objT, fields: map[int]any{fPairs: mp}}
			ip := &Interp{m: m, useGlobals: true}
			ip.call = func(c *ssa.Call, args []any) (any, bool) {
				if sc := c.Call.StaticCallee(); sc != nil && m.InModule(sc) && sc.Signature.Results().Len() == 1 && types.Identical(sc.Signature.Results().At(0).Type(), types.NewPointer(errT)) {
					return &iStruct{typ: errT, fields: map[int]any{}}, true
				}
				return nil, false
			}
			args := make([]any, len(oi.Params))
			args[0] = iObj{"evaluator"}
			for i := 1; i < len(oi.Params); i++ {
				switch {
				case isStringT(oi.Params[i].Type()):
					args[i] = constant.MakeString(tc.ask)
				case strings.HasSuffix(oi.Params[i].Type().String(), "object.Object") || strings.HasSuffix(oi.Params[i].Type().String(), "object.Obj"):
					args[i] = obj
				default:
					args[i] = iObj{"node"}
				}
			}
			res, known := ip.Run(oi, args)
			n++
			if ip.stuck != "" || !known {
				all = false
				break
			}
			if tc.want == "" {
				if o, isO := res.(*iStruct); !isO || o.typ != errT {
					all = false
				}
			} else if res != vals[tc.want] {
				all = false
			}
		}
		decidedOK = all && n == 11
	}
	if decidedOK {
		s.OK(rule, fnKey(oi)+"|exact key then upper-cased first letter", m.Pos(oi.Pos()), "case evaluation on an object with the properties Name, other, Élan, N: name, Name, other, élan, Élan, n, N are found; zzz, Other, x and the empty name are errors")
	} else if ok1 && ok2 {
		s.OK(rule, fnKey(oi)+"|exact key then upper-cased first letter", m.Pos(oi.Pos()), "two lookups: the key as written, then with its first letter upper-cased")
	} else {
		s.Violation(rule, fnKey(oi)+"|exact key then upper-cased first letter", m.Pos(oi.Pos()), "property lookup does not try the exact key and then the key with its first letter upper-cased: struct fields are not reachable lower-cased (or map keys not exactly)")
	}
	// the fallback is skipped only for the empty name: an error return between the two lookups must imply idx == ""
	if ok1 && ok2 {
		ar := m.NewArith(oi)
		var second *ssa.Lookup
		for _, lk := range lookups {
			if _, isBo := lk.Index.(*ssa.BinOp); isBo {
				second = lk
			}
		}
		okGuard := true
		var badPos string
		_ = ar
		// the name parameter is the string parameter of the function
		var idxPar *ssa.Parameter
		for _, p := range oi.Params {
			if isStringT(p.Type()) {
				idxPar = p
			}
		}
		// path rule: no path from the entry to an error return avoids both the second lookup and an edge on which name == ""
		if second == nil || idxPar == nil {
			okGuard = false
			badPos = m.Pos(oi.Pos())
		} else {
			seen := map[*ssa.BasicBlock]bool{}
			var walk func(b *ssa.BasicBlock)
			walk = func(b *ssa.BasicBlock) {
				if seen[b] || b == second.Block() {
					return
				}
				seen[b] = true
				if ret, isRet := b.Instrs[len(b.Instrs)-1].(*ssa.Return); isRet {
					if c, isC := stripIface(ret.Results[0]).(*ssa.Call); isC && m.buildsEvalError(c) {
						okGuard = false
						badPos = m.InstrPos(ret)
					}
					return
				}
				for _, sc := range b.Succs {
					if edgeImpliesEmpty(b, sc, idxPar) {
						continue
					}
					walk(sc)
				}
			}
			walk(oi.Blocks[0])
		}
		if okGuard {
			s.OK(rule, fnKey(oi)+"|the fallback is tried for every non-empty name", m.Pos(oi.Pos()), "the only error return before the second lookup is under idx == \"\"")
		} else {
			s.Violation(rule, fnKey(oi)+"|the fallback is tried for every non-empty name", badPos, "property lookup gives up before trying the upper-cased first letter for some non-empty names (the guard is wider than idx == \"\"): e.g. one-letter struct fields are not reachable lower-cased")
		}
	}
	missErr := false
	for _, b := range oi.Blocks {
		if r, ok := b.Instrs[len(b.Instrs)-1].(*ssa.Return); ok {
			if c, ok := stripIface(r.Results[0]).(*ssa.Call); ok && m.buildsEvalError(c) {
				for _, a := range c.Call.Args {
					if msg, ok := constOfValue(a); ok && strings.Contains(msg, "not found") {
						missErr = true
					}
				}
			}
		}
	}
	if missErr || decidedOK { // (the cases above include three unknown names and the empty one)
		s.OK(rule, fnKey(oi)+"|unknown property is an error", m.Pos(oi.Pos()), "a miss returns the property-not-found error")
	} else {
		s.Violation(rule, fnKey(oi)+"|unknown property is an error", m.Pos(oi.Pos()), "an unknown property does not end in an error")
	}
	// unexported fields are skipped
	ns := m.PkgFunc("object", "nativeStructToObject")
	if ns != nil {
		okExp := false
		// the property store: a map update, or a call of a helper of the package that makes one (putNative(key, val)) and
		// is not itself a converter
		objT := m.namedType("object", "Object")
		isPropStore := func(in ssa.Instruction) bool {
			if _, ok := in.(*ssa.MapUpdate); ok {
				return true
			}
			c, ok := in.(*ssa.Call)
			if !ok || c.Call.StaticCallee() == nil || c.Call.StaticCallee().Blocks == nil || !inPkg(c.Call.StaticCallee(), "object") || c.Call.StaticCallee() == ns {
				return false
			}
			h := c.Call.StaticCallee()
			if res := h.Signature.Results(); res.Len() == 1 && objT != nil && types.Identical(res.At(0).Type(), objT) {
				return false
			}
			for _, hb := range h.Blocks {
				for _, hin := range hb.Instrs {
					if _, isMu := hin.(*ssa.MapUpdate); isMu {
						return true
					}
				}
			}
			return false
		}
		for _, b := range ns.Blocks {
			for _, in := range b.Instrs {
				if isPropStore(in) {
					for _, f := range expandFacts(factsAt(b)) {
						if c, ok := f.Cond.(*ssa.Call); ok && f.Holds && c.Call.StaticCallee() != nil && fnFullName(c.Call.StaticCallee()) == "(reflect.StructField).IsExported" {
							okExp = true
						}
					}
				}
			}
		}
		// ... and every exported field does: the only way round the property store within a pass of the loop over the
		// fields is the unexported-field edge
		for _, li := range naturalLoops(ns) {
			var stores []*ssa.BasicBlock
			for b := range li.body {
				for _, in := range b.Instrs {
					if isPropStore(in) {
						stores = append(stores, b)
					}
				}
			}
			if len(stores) == 0 {
				continue
			}
			isStore := map[*ssa.BasicBlock]bool{}
			for _, b := range stores {
				isStore[b] = true
			}
			// the edges taken when the field is not exported
			skipEdge := map[[2]*ssa.BasicBlock]bool{}
			for b := range li.body {
				iff, ok := b.Instrs[len(b.Instrs)-1].(*ssa.If)
				if !ok {
					continue
				}
				cond, neg := iff.Cond, false
				if u, isU := cond.(*ssa.UnOp); isU && u.Op == token.NOT {
					cond, neg = u.X, true
				}
				if c, isC := cond.(*ssa.Call); isC && c.Call.StaticCallee() != nil && fnFullName(c.Call.StaticCallee()) == "(reflect.StructField).IsExported" {
					if neg {
						skipEdge[[2]*ssa.BasicBlock{b, b.Succs[0]}] = true
					} else {
						skipEdge[[2]*ssa.BasicBlock{b, b.Succs[1]}] = true
					}
				}
			}
			// is the header reachable again from the first body block without a store and without a skip edge?
			seen := map[*ssa.BasicBlock]bool{}
			var stack []*ssa.BasicBlock
			for _, sc := range li.header.Succs {
				// (in a rotated loop the header is the first block of the body and may end in the export test itself)
				if li.body[sc] && !skipEdge[[2]*ssa.BasicBlock{li.header, sc}] && !isStore[li.header] {
					stack = append(stack, sc)
				}
			}
			around := ""
			for len(stack) > 0 && around == "" {
				b := stack[len(stack)-1]
				stack = stack[:len(stack)-1]
				if seen[b] || isStore[b] || !li.body[b] {
					continue
				}
				seen[b] = true
				for _, sc := range b.Succs {
					if skipEdge[[2]*ssa.BasicBlock{b, sc}] {
						continue
					}
					if sc == li.header {
						around = m.InstrPos(b.Instrs[len(b.Instrs)-1])
						break
					}
					stack = append(stack, sc)
				}
			}
			// the loop runs over all the fields: a counter compared with anything but NumField() stops early (a count of the
			// exported fields is smaller than the index of the last exported field when an unexported one precedes it)
			for b := range li.body {
				iff, ok := b.Instrs[len(b.Instrs)-1].(*ssa.If)
				if !ok {
					continue
				}
				exits := !li.body[iff.Block().Succs[0]] || !li.body[iff.Block().Succs[1]]
				bo, isBo := iff.Cond.(*ssa.BinOp)
				if !exits || !isBo || (bo.Op != token.LSS && bo.Op != token.GTR && bo.Op != token.LEQ && bo.Op != token.GEQ) {
					continue
				}
				isNumField := func(v ssa.Value) bool {
					c, isC := v.(*ssa.Call)
					if !isC {
						return false
					}
					if c.Call.IsInvoke() {
						return c.Call.Method.Name() == "NumField"
					}
					return c.Call.StaticCallee() != nil && c.Call.StaticCallee().Name() == "NumField"
				}
				bound := bo.Y
				if bo.Op == token.GTR || bo.Op == token.GEQ {
					bound = bo.X
				}
				if _, isPhi := bo.X.(*ssa.Phi); !isPhi && (bo.Op == token.LSS || bo.Op == token.LEQ) {
					continue // not a counter test
				}
				kb := fnKey(ns) + "|the loop over the fields runs to NumField()"
				if isNumField(bound) && (bo.Op == token.LSS || bo.Op == token.GTR) {
					s.OK(rule, kb, m.InstrPos(iff), "i < NumField()")
				} else {
					s.Violation(rule, kb, m.InstrPos(iff), "%s stops its loop over the struct's fields at %s instead of NumField(): fields are indexed in declaration order, exported or not, so an exported field declared after an unexported one can lie beyond that bound and is missing from the object (and an unsupported value in it is not reported)", fnKey(ns), valueDesc(bound))
				}
			}
			key := fnKey(ns) + "|every exported field becomes a property"
			if around == "" {
				s.OK(rule, key, m.Pos(ns.Pos()), "within a pass of the loop over the fields the property store can only be by-passed over the !IsExported() edge (or by leaving the function)")
			} else {
				s.Violation(rule, key, around, "%s can go on to the next field without storing the current one although it is exported (pass ends at %s): some exported fields (by tag, name, type, ...) are not reachable from templates", fnKey(ns), around)
			}
		}
		if okExp {
			s.OK(rule, fnKey(ns)+"|only exported fields", m.Pos(ns.Pos()), "a field becomes a property only under IsExported()")
		} else {
			s.Violation(rule, fnKey(ns)+"|only exported fields", m.Pos(ns.Pos()), "struct fields become properties without the IsExported() test: unexported fields are reachable (and Interface() panics on them)")
		}
	}
}

// caseResult describes what a type-switch case block returns: "<object type> payload" when the
// returned object's Value field holds val (possibly converted), else "<object type> other".
func caseResult(b *ssa.BasicBlock, val ssa.Value, extra ...any) string {
	// extra: the switched parameter and the asserted type — then the payload may also be read back through
	// reflection with the accessor of that type's kind (reflect.ValueOf(par).Int() for a signed integer type, ...)
	var par ssa.Value
	var asserted types.Type
	if len(extra) == 2 {
		par, _ = extra[0].(ssa.Value)
		asserted, _ = extra[1].(types.Type)
	}
	viaReflect := func(v ssa.Value) bool {
		c, ok := v.(*ssa.Call)
		if !ok || par == nil || asserted == nil || c.Call.StaticCallee() == nil || len(c.Call.Args) != 1 {
			return false
		}
		vo, ok := c.Call.Args[0].(*ssa.Call)
		if !ok || vo.Call.StaticCallee() == nil || fnFullName(vo.Call.StaticCallee()) != "reflect.ValueOf" || stripIface(vo.Call.Args[0]) != par {
			return false
		}
		bt, ok := asserted.Underlying().(*types.Basic)
		if !ok {
			return false
		}
		switch fnFullName(c.Call.StaticCallee()) {
		case "(reflect.Value).Int":
			return bt.Info()&types.IsInteger != 0 && bt.Info()&types.IsUnsigned == 0
		case "(reflect.Value).Uint":
			return bt.Info()&types.IsUnsigned != 0
		case "(reflect.Value).Float":
			return bt.Info()&types.IsFloat != 0
		case "(reflect.Value).String":
			return bt.Info()&types.IsString != 0
		case "(reflect.Value).Bool":
			return bt.Info()&types.IsBoolean != 0
		}
		return false
	}
	for i := 0; i < 3; i++ {
		if _, ok := b.Instrs[len(b.Instrs)-1].(*ssa.Jump); ok && len(b.Instrs) == 1 {
			b = b.Succs[0]
		}
	}
	r, ok := b.Instrs[len(b.Instrs)-1].(*ssa.Return)
	if !ok || len(r.Results) == 0 {
		return "?"
	}
	res := stripIface(r.Results[0])
	al, ok := res.(*ssa.Alloc)
	if !ok {
		// built by a constructor helper (newInt(v)): the helper's own result, with its parameter standing for the argument
		if hc, isCall := res.(*ssa.Call); isCall && hc.Call.StaticCallee() != nil && hc.Call.StaticCallee().Blocks != nil && len(hc.Call.StaticCallee().Blocks) == 1 {
			h := hc.Call.StaticCallee()
			for i, a := range hc.Call.Args {
				if a == val && i < len(h.Params) {
					return caseResult(h.Blocks[0], h.Params[i])
				}
			}
		}
		return "? " + res.Type().String()
	}
	t := typeStr(al.Type())
	if val == nil && (par == nil || asserted == nil) {
		return t
	}
	for _, ref := range *al.Referrers() {
		fa, ok := ref.(*ssa.FieldAddr)
		if !ok {
			continue
		}
		for _, r2 := range *fa.Referrers() {
			if st, ok := r2.(*ssa.Store); ok {
				v := st.Val
				if cv, ok := v.(*ssa.Convert); ok {
					v = cv.X
				}
				if (val != nil && v == val) || viaReflect(v) {
					return t + " payload"
				}
			}
		}
	}
	return t + " other"
}

// edgeImpliesEmpty: taking the edge pred->succ establishes that the string v is empty
// (v == "", !(v != ""), len(v) == 0, len(v) < 1, len(v) <= 0, !(len(v) > 0), !(len(v) >= 1), !(len(v) != 0)).
func edgeImpliesEmpty(pred, succ *ssa.BasicBlock, v ssa.Value) bool {
	isLen := func(x ssa.Value) bool {
		c, ok := x.(*ssa.Call)
		if !ok {
			return false
		}
		bi, ok := c.Call.Value.(*ssa.Builtin)
		return ok && bi.Name() == "len" && len(c.Call.Args) == 1 && c.Call.Args[0] == v
	}
	flip := map[token.Token]token.Token{token.LSS: token.GTR, token.GTR: token.LSS, token.LEQ: token.GEQ, token.GEQ: token.LEQ, token.EQL: token.EQL, token.NEQ: token.NEQ}
	negate := map[token.Token]token.Token{token.LSS: token.GEQ, token.GEQ: token.LSS, token.LEQ: token.GTR, token.GTR: token.LEQ, token.EQL: token.NEQ, token.NEQ: token.EQL}
	for _, f := range expandFacts(edgeFact(pred, succ)) {
		bo, ok := f.Cond.(*ssa.BinOp)
		if !ok {
			continue
		}
		x, y, op := bo.X, bo.Y, bo.Op
		if _, isK := x.(*ssa.Const); isK {
			x, y, op = y, x, flip[op]
		}
		k, isK := y.(*ssa.Const)
		if !isK || k.Value == nil {
			continue
		}
		if !f.Holds {
			op = negate[op]
		}
		switch {
		case x == v && k.Value.Kind() == constant.String && constant.StringVal(k.Value) == "" && op == token.EQL:
			return true
		case isLen(x) && k.Value.Kind() == constant.Int:
			n := k.Int64()
			if (op == token.EQL && n == 0) || (op == token.LSS && n == 1) || (op == token.LEQ && n == 0) {
				return true
			}
		}
	}
	return false
}

// RunLiteralKey — R-KINDS (literal keys): a map key is reachable by its name through index syntax. The name written
// in `m["a&b"]` is a string literal; it reaches the property lookup as the object that evaluating the literal yields.
// That object must hold the text as written: a literal that is HTML-escaped when it is evaluated (rather than when it
// is printed) asks the map for `a&amp;b`.
func (m *Model) RunLiteralKey(s *Sink, rule string) {
	var lit *ssa.Function
	for _, n := range []string{"evalString", "evalStringLiteral"} {
		if f := m.Method("evaluator", "Evaluator", n); f != nil {
			lit = f
		}
	}
	if lit == nil {
		s.Undecided(rule, "evaluator|string literal", "-", "the function that evaluates a string literal was not found")
		return
	}
	escaped := ""
	for _, h := range m.helpersOf(lit) {
		for _, b := range h.Blocks {
			for _, in := range b.Instrs {
				if c, ok := in.(*ssa.Call); ok && c.Call.StaticCallee() != nil && fnFullName(c.Call.StaticCallee()) == "html.EscapeString" && escaped == "" {
					escaped = m.InstrPos(c)
				}
			}
		}
	}
	key := "evaluator." + canonFnName(lit) + "|a string literal evaluates to the text as written" // keyed by name: the same finding whether it is a method or a function
	if escaped != "" {
		s.Violation(rule, key, m.Pos(lit.Pos()), "%s HTML-escapes the literal when it is evaluated (html.EscapeString at %s), so every consumer other than the printer sees the escaped text: the index `m[\"a&b\"]` asks the map for `a&amp;b` and a key that contains &, < or > cannot be reached by its name", fnKey(lit), escaped)
	} else {
		s.OK(rule, key, m.Pos(lit.Pos()), "no escaping where the literal is evaluated")
	}
}

// buildsEvalError: a call of an evaluator function (newError or a sibling that takes the line instead of the node)
// whose result is an *object.Error.
func (m *Model) buildsEvalError(c *ssa.Call) bool {
	sc := c.Call.StaticCallee()
	if sc == nil || shortPkg(fnPkgPath(sc)) != "evaluator" || sc.Signature.Results().Len() != 1 {
		return false
	}
	errT := m.namedType("object", "Error")
	return errT != nil && types.Identical(sc.Signature.Results().At(0).Type(), types.NewPointer(errT))
}

// RunSupportedKinds — R-KINDS (supported kinds): "every Go value composed of bool, string, integers of any width, floats,
// pointers, slices, string-keyed maps and structs is visible" speaks of kinds, not of the predeclared types: a value of
// `type Status string` is a string. The conversion dispatches on the exact type first (a type switch, which a named
// type does not match) and then on reflect's Kind: every supported kind must have a case there, or values of named
// types of that kind are refused as unsupported.
func (m *Model) RunSupportedKinds(s *Sink, rule string) {
	nto := m.PkgFunc("object", "NativeToObject")
	if nto == nil {
		s.Undecided(rule, "object.NativeToObject", "-", "not found")
		return
	}
	want := map[int64]string{1: "Bool", 2: "Int", 3: "Int8", 4: "Int16", 5: "Int32", 6: "Int64", 7: "Uint", 8: "Uint8", 9: "Uint16", 10: "Uint32", 11: "Uint64",
		13: "Float32", 14: "Float64", 21: "Map", 22: "Pointer", 23: "Slice", 24: "String", 25: "Struct"}
	have := map[int64]bool{}
	nCmp := 0
	for _, f := range m.reachableFns([]*ssa.Function{nto}) {
		if shortPkg(fnPkgPath(f)) != "object" {
			continue
		}
		for _, b := range f.Blocks {
			for _, in := range b.Instrs {
				bo, ok := in.(*ssa.BinOp)
				if !ok || bo.Op != token.EQL {
					continue
				}
				for _, pr := range [][2]ssa.Value{{bo.X, bo.Y}, {bo.Y, bo.X}} {
					k, isK := pr[1].(*ssa.Const)
					if !isK || k.Value == nil {
						continue
					}
					nt, isN := k.Type().(*types.Named)
					if !isN || nt.Obj().Pkg() == nil || nt.Obj().Pkg().Path() != "reflect" || nt.Obj().Name() != "Kind" {
						continue
					}
					c, isC := pr[0].(*ssa.Call)
					if !isC {
						continue
					}
					name := ""
					if sc := c.Call.StaticCallee(); sc != nil {
						name = fnFullName(sc)
					} else if c.Call.IsInvoke() {
						name = "reflect.Type." + c.Call.Method.Name()
					}
					if !strings.HasSuffix(name, ".Kind") {
						continue
					}
					// only the dispatch on the kind of the value itself (not of a map's key type, an element type, ...)
					if c.Call.IsInvoke() {
						if tc, isTC := c.Call.Value.(*ssa.Call); !isTC || tc.Call.StaticCallee() == nil || fnFullName(tc.Call.StaticCallee()) != "reflect.TypeOf" {
							continue
						}
					} else if len(c.Call.Args) == 1 {
						if vc, isVC := c.Call.Args[0].(*ssa.Call); !isVC || vc.Call.StaticCallee() == nil || (fnFullName(vc.Call.StaticCallee()) != "reflect.ValueOf" && fnFullName(vc.Call.StaticCallee()) != "reflect.TypeOf") {
							if _, isPar := c.Call.Args[0].(*ssa.Parameter); !isPar {
								continue
							}
						}
					}
					nCmp++
					have[k.Int64()] = true
				}
			}
		}
	}
	// ... or a table of converters keyed by kind that the conversion looks the value's kind up in: the keys the
	// package initialiser puts there (the table must not be written anywhere else)
	for _, f := range m.reachableFns([]*ssa.Function{nto}) {
		if shortPkg(fnPkgPath(f)) != "object" {
			continue
		}
		for _, b := range f.Blocks {
			for _, in := range b.Instrs {
				lk, ok := in.(*ssa.Lookup)
				if !ok {
					continue
				}
				mt, isM := lk.X.Type().Underlying().(*types.Map)
				if !isM {
					continue
				}
				if nt, isN := mt.Key().(*types.Named); !isN || nt.Obj().Pkg() == nil || nt.Obj().Pkg().Path() != "reflect" || nt.Obj().Name() != "Kind" {
					continue
				}
				ld, isLd := lk.X.(*ssa.UnOp)
				if !isLd {
					continue
				}
				g, isG := ld.X.(*ssa.Global)
				if !isG || g.Pkg == nil || m.globalMapWritten(shortPkg(g.Pkg.Pkg.Path()), g.Name()) != "" {
					continue
				}
				if c, isC := lk.Index.(*ssa.Call); !isC || !(c.Call.IsInvoke() && c.Call.Method.Name() == "Kind" || c.Call.StaticCallee() != nil && strings.HasSuffix(fnFullName(c.Call.StaticCallee()), ".Kind")) {
					continue
				}
				// the keys stored by the initialiser
				if initFn := g.Pkg.Func("init"); initFn != nil {
					for _, ib := range initFn.Blocks {
						for _, iin := range ib.Instrs {
							st, isSt := iin.(*ssa.Store)
							if !isSt || st.Addr != ssa.Value(g) {
								continue
							}
							mk, isMk := st.Val.(*ssa.MakeMap)
							if !isMk {
								continue
							}
							for _, r := range *mk.Referrers() {
								if mu, isMu := r.(*ssa.MapUpdate); isMu {
									if k, isK := mu.Key.(*ssa.Const); isK && k.Value != nil {
										have[k.Int64()] = true
										nCmp++
									}
								}
							}
						}
					}
				}
			}
		}
	}
	if nCmp < 4 {
		s.Undecided(rule, "object.NativeToObject|kind dispatch", m.Pos(nto.Pos()), "only %d comparisons of the value's reflect kind with a constant were found in the conversion (expected the cases for structs, slices, maps and pointers at least)", nCmp)
		return
	}
	var missing []string
	for k, n := range want {
		if !have[k] {
			missing = append(missing, n)
		}
	}
	sort.Strings(missing)
	key := "object.NativeToObject|every supported kind has a case in the dispatch on the value's kind"
	if len(missing) > 0 {
		s.Violation(rule, key, m.Pos(nto.Pos()), "the conversion's dispatch on reflect.Kind has no case for %s: a value whose type is a named type of that kind (`type Status string`, `type Celsius float64`, time.Duration) does not match the type switch either and is refused as unsupported, at any depth", strings.Join(missing, ", "))
	} else {
		s.OK(rule, key, m.Pos(nto.Pos()), "the kind dispatch has cases for the 18 supported kinds (%d comparisons)", nCmp)
	}
}
