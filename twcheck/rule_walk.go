package main

// rule_walk.go — R-WALK (C03, C07): a traversal of the parsed tree that descends into a construct descends into all of
// it. The parsed tree is held in the "statement-holding" fields of the AST node types (a field whose type, through
// pointers and slices, is a list of ast.Statement or a node type that itself holds statements; a single statement is a
// clause, not a body): IfStmt.Consequence / Alternatives /
// Alternative, ForStmt.Block / Alternative, EachStmt.Block / Alternative, ComponentStmt.Slots, SlotStmt.Body, … —
// computed from the type declarations, restricted to the fields the parser fills. A walk is a group of mutually
// recursive functions outside the ast package (a strongly connected component of the VTA call graph): the evaluator's
// Eval and everything it dispatches to, or a collector that gathers the components / inserts of a file after parsing.
// What a walk reaches of a node type T is what its functions and their non-recursive helpers read of T, plus what the
// ast functions they call to get at statements (Stmts() and the like — functions of package ast whose result holds
// statements) read of T.
// The rule is one-sided handling made exact: a walk that reads one parser-filled statement-holding field of T reads
// every one of them. A collector that goes through EachStmt.Block but not EachStmt.Alternative never sees the
// component used in the @else of an @each; an evaluator that does the same never renders it.
// Not decided: what the walk does with what it reaches (the case evaluations of R-LOOP / R-BRANCH decide that for the
// evaluator), and walks that are not recursive (a loop over the top-level statements only).

import (
	"fmt"
	"go/types"
	"sort"
	"strings"

	"golang.org/x/tools/go/ssa"
)

// Of ast.Program only the statement list holds the tree; its other statement-typed fields (the tables R-LAYOUT speaks
// of: Components, Inserts, Reserves; the @use statement) point into it.

type walkField struct {
	T *types.Named
	I int
}

func (m *Model) stmtHoldingFields() (map[walkField]bool, string) {
	stmtT := m.namedType("ast", "Statement")
	if stmtT == nil {
		return nil, "ast.Statement not found"
	}
	var astPkg *types.Package = stmtT.Obj().Pkg()
	strip := func(t types.Type) types.Type {
		for {
			switch x := t.(type) {
			case *types.Pointer:
				t = x.Elem()
			case *types.Slice:
				t = x.Elem()
			case *types.Array:
				t = x.Elem()
			default:
				return t
			}
		}
	}
	var structs []*types.Named
	for _, n := range astPkg.Scope().Names() {
		tn, ok := astPkg.Scope().Lookup(n).(*types.TypeName)
		if !ok {
			continue
		}
		nt, ok := tn.Type().(*types.Named)
		if !ok {
			continue
		}
		if _, isS := nt.Underlying().(*types.Struct); isS {
			structs = append(structs, nt)
		}
	}
	holder := map[*types.Named]bool{}
	holdsT := func(t types.Type) bool {
		t = strip(t)
		nt, ok := t.(*types.Named)
		if !ok {
			return false
		}
		if types.Identical(nt, stmtT) {
			return true
		}
		return holder[nt]
	}
	for changed := true; changed; {
		changed = false
		for _, s := range structs {
			if holder[s] {
				continue
			}
			st := s.Underlying().(*types.Struct)
			for i := 0; i < st.NumFields(); i++ {
				if holdsT(st.Field(i).Type()) {
					holder[s] = true
					changed = true
					break
				}
			}
		}
	}
	out := map[walkField]bool{}
	for _, s := range structs {
		if !holder[s] {
			continue
		}
		st := s.Underlying().(*types.Struct)
		for i := 0; i < st.NumFields(); i++ {
			if !holdsT(st.Field(i).Type()) {
				continue
			}
			// a single statement is a clause of its construct (the init and post clauses of @for), not a body: bodies
			// are blocks and lists
			if nt, isN := st.Field(i).Type().(*types.Named); isN && types.Identical(nt, stmtT) {
				continue
			}
			if nt, isN := strip(st.Field(i).Type()).(*types.Named); s.Obj().Name() == "Program" && !(isN && types.Identical(nt, stmtT)) {
				continue
			}
			out[walkField{s, i}] = true
		}
	}
	return out, ""
}

// fieldAccess: the (named struct, field index) an instruction reads or addresses, if any.
func fieldAccess(in ssa.Instruction) (*types.Named, int, bool) {
	var xt types.Type
	var idx int
	switch x := in.(type) {
	case *ssa.FieldAddr:
		xt, idx = x.X.Type(), x.Field
	case *ssa.Field:
		xt, idx = x.X.Type(), x.Field
	default:
		return nil, 0, false
	}
	if p, ok := xt.Underlying().(*types.Pointer); ok {
		xt = p.Elem()
	}
	nt, ok := xt.(*types.Named)
	if !ok {
		return nil, 0, false
	}
	return nt, idx, true
}

func (m *Model) RunWalk(s *Sink, rule string) {
	fields, why := m.stmtHoldingFields()
	if why != "" {
		s.Undecided(rule, "statement-holding fields", "-", "%s", why)
		return
	}
	// the fields the parser fills
	filled := map[walkField]bool{}
	for _, fn := range m.ModFns {
		if fn.Blocks == nil || shortPkg(fnPkgPath(fn)) != "parser" {
			continue
		}
		for _, b := range fn.Blocks {
			for _, in := range b.Instrs {
				st, ok := in.(*ssa.Store)
				if !ok {
					continue
				}
				fa, ok := st.Addr.(*ssa.FieldAddr)
				if !ok {
					continue
				}
				if nt, i, ok := fieldAccess(fa); ok && fields[walkField{nt, i}] {
					filled[walkField{nt, i}] = true
				}
			}
		}
	}
	if len(filled) < 8 {
		s.Undecided(rule, "statement-holding fields", "-", "only %d statement-holding AST fields are stored to by the parser (expected at least 8: the bodies and alternatives of @if, @elseif, @for, @each, slots, inserts): the tree is no longer built the way this rule reads it", len(filled))
		return
	}
	// the call graph among module functions; wrappers are looked through; a closure belongs to the function that makes it
	var universe []*ssa.Function
	in := map[*ssa.Function]bool{}
	for _, fn := range m.ModFns {
		if fn.Blocks != nil && !isUserPkg(fnPkgPath(fn)) {
			universe = append(universe, fn)
			in[fn] = true
		}
	}
	sort.Slice(universe, func(i, j int) bool { return fnKey(universe[i]) < fnKey(universe[j]) })
	succCache := map[*ssa.Function][]*ssa.Function{}
	succ := func(f *ssa.Function) []*ssa.Function {
		if c, ok := succCache[f]; ok {
			return c
		}
		seen := map[*ssa.Function]bool{}
		var out []*ssa.Function
		var add func(g *ssa.Function, d int)
		add = func(g *ssa.Function, d int) {
			n := m.CG.Nodes[g]
			if n == nil {
				return
			}
			for _, e := range n.Out {
				c := e.Callee.Func
				if in[c] {
					if !seen[c] {
						seen[c] = true
						out = append(out, c)
					}
				} else if c.Synthetic != "" && d < 3 {
					add(c, d+1)
				}
			}
		}
		add(f, 0)
		for _, af := range f.AnonFuncs {
			if in[af] && !seen[af] {
				seen[af] = true
				out = append(out, af)
			}
		}
		sort.Slice(out, func(i, j int) bool { return fnKey(out[i]) < fnKey(out[j]) })
		succCache[f] = out
		return out
	}
	// Tarjan
	index, low := map[*ssa.Function]int{}, map[*ssa.Function]int{}
	onStack := map[*ssa.Function]bool{}
	var stack []*ssa.Function
	var sccs [][]*ssa.Function
	idx := 0
	var strong func(v *ssa.Function)
	strong = func(v *ssa.Function) {
		idx++
		index[v], low[v] = idx, idx
		stack = append(stack, v)
		onStack[v] = true
		for _, w := range succ(v) {
			if index[w] == 0 {
				strong(w)
				if low[w] < low[v] {
					low[v] = low[w]
				}
			} else if onStack[w] && index[w] < low[v] {
				low[v] = index[w]
			}
		}
		if low[v] == index[v] {
			var comp []*ssa.Function
			for {
				w := stack[len(stack)-1]
				stack = stack[:len(stack)-1]
				onStack[w] = false
				comp = append(comp, w)
				if w == v {
					break
				}
			}
			self := false
			for _, w := range succ(v) {
				if w == v {
					self = true
				}
			}
			if len(comp) > 1 || self {
				sccs = append(sccs, comp)
			}
		}
	}
	for _, f := range universe {
		if index[f] == 0 {
			strong(f)
		}
	}
	// reads of a function
	readsOf := func(f *ssa.Function, into map[walkField]string) {
		for _, b := range f.Blocks {
			for _, ins := range b.Instrs {
				if nt, i, ok := fieldAccess(ins); ok && fields[walkField{nt, i}] {
					if _, have := into[walkField{nt, i}]; !have {
						into[walkField{nt, i}] = m.InstrPos(ins)
					}
				}
			}
		}
	}
	// ast functions that hand out statements
	stmtT := m.namedType("ast", "Statement")
	handsOutStmts := func(f *ssa.Function) bool {
		if shortPkg(fnPkgPath(f)) != "ast" {
			return false
		}
		res := f.Signature.Results()
		for i := 0; i < res.Len(); i++ {
			t := res.At(i).Type()
			for {
				switch x := t.(type) {
				case *types.Pointer:
					t = x.Elem()
					continue
				case *types.Slice:
					t = x.Elem()
					continue
				}
				break
			}
			if nt, ok := t.(*types.Named); ok {
				if types.Identical(nt, stmtT) {
					return true
				}
				for wf := range fields {
					if wf.T == nt {
						return true
					}
				}
			}
		}
		return false
	}
	// what a walk calls to get at the tree: the ast functions that hand out statements, and the helpers of the walk's
	// own packages that are not themselves recursive (`nthIfBranch(node, i)`)
	partOfWalk := func(c *ssa.Function) bool {
		if shortPkg(fnPkgPath(c)) == "ast" {
			return handsOutStmts(c)
		}
		return true
	}
	nWalks, nTypes := 0, 0
	for _, comp := range sccs {
		allAst := true
		for _, f := range comp {
			if shortPkg(fnPkgPath(f)) != "ast" {
				allAst = false
			}
		}
		if allAst {
			continue // printing
		}
		inComp := map[*ssa.Function]bool{}
		for _, f := range comp {
			inComp[f] = true
		}
		reads := map[walkField]string{}
		seenAst := map[*ssa.Function]bool{}
		var viaAst func(f *ssa.Function)
		viaAst = func(f *ssa.Function) {
			if seenAst[f] {
				return
			}
			seenAst[f] = true
			readsOf(f, reads)
			for _, c := range succ(f) {
				if !inComp[c] && partOfWalk(c) {
					viaAst(c)
				}
			}
		}
		for _, f := range comp {
			readsOf(f, reads)
			for _, c := range succ(f) {
				if !inComp[c] && partOfWalk(c) {
					viaAst(c)
				}
			}
		}
		// per node type
		byType := map[*types.Named][]int{}
		for wf := range reads {
			if filled[wf] {
				byType[wf.T] = append(byType[wf.T], wf.I)
			}
		}
		if len(byType) == 0 {
			continue
		}
		nWalks++
		// the entry of the walk: the member most called from outside, then by name
		ext := map[*ssa.Function]int{}
		for _, g := range universe {
			if inComp[g] {
				continue
			}
			for _, c := range succ(g) {
				if inComp[c] {
					ext[c]++
				}
			}
		}
		sort.Slice(comp, func(i, j int) bool { return fnKey(comp[i]) < fnKey(comp[j]) })
		hub := comp[0]
		for _, f := range comp {
			if ext[f] > ext[hub] {
				hub = f
			}
		}
		hubName := shortPkg(fnPkgPath(hub)) + "." + canonFnName(hub)
		var ts []*types.Named
		for t := range byType {
			ts = append(ts, t)
		}
		sort.Slice(ts, func(i, j int) bool { return ts[i].Obj().Name() < ts[j].Obj().Name() })
		for _, t := range ts {
			nTypes++
			st := t.Underlying().(*types.Struct)
			var have, miss []string
			at := ""
			for i := 0; i < st.NumFields(); i++ {
				wf := walkField{t, i}
				if !filled[wf] {
					continue
				}
				name := canonFieldName(t, i, st.Field(i).Name())
				if pos, ok := reads[wf]; ok {
					have = append(have, name)
					if at == "" {
						at = pos
					}
				} else {
					miss = append(miss, name)
				}
			}
			key := fmt.Sprintf("%s|the walk that reaches ast.%s reaches all of it", hubName, t.Obj().Name())
			if len(miss) > 0 {
				s.Violation(rule, key, at, "the recursive walk through %s (%d functions) reads %s of ast.%s — itself or through the ast functions it calls for statements — but never %s, which the parser fills as well: whatever stands in that part of a template (a component use, an insert, a nested directive) is never reached by this walk", hubName, len(comp), strings.Join(have, ", "), t.Obj().Name(), strings.Join(miss, ", "))
			} else {
				s.OK(rule, key, at, "the walk through %s reads every parser-filled statement-holding field of ast.%s: %s", hubName, t.Obj().Name(), strings.Join(have, ", "))
			}
		}
	}
	if nWalks < 1 || nTypes < 5 {
		s.Undecided(rule, "walks", "-", "%d recursive walks over %d node types found (expected the evaluator's walk over at least 5 node types): the call graph no longer shows the tree walk", nWalks, nTypes)
	}
}
