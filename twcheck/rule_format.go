package main

// rule_format.go — R-FORMAT (C10, C13, C17, C18): text that comes from a template, a file name or an error is never used
// as a printf format. A '%' in it would be interpreted: the rendered page written with Fprintf(w, page) mangles every
// literal that contains a percent sign; an error message built with the text of another error as its format loses the
// file name it was meant to show (`lstat /srv/v%sw` becomes `lstat /srv/v%!s(MISSING)w`).
//
// The printf-like functions are the fmt family and every module function that hands one of its parameters on as the
// format (found by a fixpoint: fail.New, the newError helpers, ...). At every call of one, the format argument is a
// constant, or the caller's own format parameter handed on.

import (
	"fmt"
	"go/constant"
	"go/types"
	"sort"

	"golang.org/x/tools/go/ssa"
)

var fmtFormatParam = map[string]int{
	"fmt.Sprintf": 0, "fmt.Printf": 0, "fmt.Errorf": 0, "fmt.Fprintf": 1, "fmt.Appendf": 1,
	"(*log.Logger).Printf": 1, "log.Printf": 0, "log.Fatalf": 0, "log.Panicf": 0,
}

func (m *Model) RunFormat(s *Sink, rule string, fns []*ssa.Function) {
	// wrappers: module function -> index of the parameter that is handed on as a format
	wrap := map[*ssa.Function]int{}
	formatIdx := func(c ssa.CallInstruction) (int, bool) {
		sc := c.Common().StaticCallee()
		if sc == nil {
			return 0, false
		}
		if i, ok := fmtFormatParam[fnFullName(sc)]; ok {
			return i, true
		}
		if i, ok := wrap[sc]; ok {
			if sc.Signature.Recv() != nil {
				return i, true // Params include the receiver, and so do Args of a static method call
			}
			return i, true
		}
		return 0, false
	}
	var mod []*ssa.Function
	for _, fn := range m.ModFns {
		if fn.Blocks != nil && !isUserPkg(fnPkgPath(fn)) {
			mod = append(mod, fn)
		}
	}
	for changed := true; changed; {
		changed = false
		for _, fn := range mod {
			if _, done := wrap[fn]; done {
				continue
			}
			for _, b := range fn.Blocks {
				for _, in := range b.Instrs {
					c, ok := in.(ssa.CallInstruction)
					if !ok {
						continue
					}
					fi, isF := formatIdx(c)
					if !isF || fi >= len(c.Common().Args) {
						continue
					}
					if p, isP := c.Common().Args[fi].(*ssa.Parameter); isP && p.Parent() == fn {
						for pi, q := range fn.Params {
							if q == p {
								if _, done := wrap[fn]; !done {
									wrap[fn] = pi
									changed = true
								}
							}
						}
					}
				}
			}
		}
	}
	inSet := map[*ssa.Function]bool{}
	for _, f := range fns {
		inSet[f] = true
	}
	n := 0
	for _, fn := range mod {
		if !inSet[fn] {
			continue
		}
		cnt := map[string]int{}
		for _, b := range fn.Blocks {
			for _, in := range b.Instrs {
				c, ok := in.(ssa.CallInstruction)
				if !ok {
					continue
				}
				fi, isF := formatIdx(c)
				if !isF || fi >= len(c.Common().Args) {
					continue
				}
				n++
				callee := c.Common().StaticCallee()
				base := fmt.Sprintf("%s|format of %s is a constant", fnKey(fn), canonFnName(callee))
				cnt[base]++
				key := base
				if cnt[base] > 1 {
					key = fmt.Sprintf("%s #%d", base, cnt[base])
				}
				fa := c.Common().Args[fi]
				ok2 := false
				why := ""
				switch x := fa.(type) {
				case *ssa.Const:
					ok2 = x.Value != nil && x.Value.Kind() == constant.String
					why = "a constant"
				case *ssa.UnOp:
					// a package-level string that only its package's initialiser writes (a template kept in a var)
					if g, isG := x.X.(*ssa.Global); isG && m.globalOnlyInit(g) {
						ok2 = true
						why = "a package-level string written only by the package initialiser"
					}
				case *ssa.Parameter:
					if pi, isW := wrap[fn]; isW && fn.Params[pi] == x {
						ok2 = true
						why = "the caller's own format parameter, judged at its call sites"
					}
				case *ssa.Phi, *ssa.Call:
					// one of several constants: chosen by a condition, or by a module function all of whose returns are constants
					var constOnly func(v ssa.Value, d int) bool
					constOnly = func(v ssa.Value, d int) bool {
						if d > 3 {
							return false
						}
						switch y := v.(type) {
						case *ssa.Const:
							return y.Value != nil && y.Value.Kind() == constant.String
						case *ssa.Phi:
							for _, e := range y.Edges {
								if !constOnly(e, d+1) {
									return false
								}
							}
							return len(y.Edges) > 0
						case *ssa.Call:
							sc := y.Call.StaticCallee()
							if sc == nil || sc.Blocks == nil || !m.InModule(sc) || sc.Signature.Results().Len() != 1 {
								return false
							}
							nr := 0
							for _, rb := range sc.Blocks {
								if ret, isRet := rb.Instrs[len(rb.Instrs)-1].(*ssa.Return); isRet {
									nr++
									if !constOnly(ret.Results[0], d+1) {
										return false
									}
								}
							}
							return nr > 0
						}
						return false
					}
					if constOnly(fa, 0) {
						ok2 = true
						why = "one of several constants (a choice among constant texts)"
					}
				}
				if ok2 {
					s.OK(rule, key, m.InstrPos(in), "the format is %s", why)
					continue
				}
				hasArgs := false
				if sig := callee.Signature; sig.Variadic() && len(c.Common().Args) == sig.Params().Len()+btoi(sig.Recv() != nil && !c.Common().IsInvoke()) {
					if k, isK := c.Common().Args[len(c.Common().Args)-1].(*ssa.Const); !isK || !k.IsNil() {
						hasArgs = true
					}
				}
				_ = hasArgs
				s.Violation(rule, key, m.InstrPos(in), "%s calls %s with a format that is not a constant (%s): a '%%' in that text is taken for a verb — `%%s` in a file name prints `%%!s(MISSING)`, a rendered page written this way mangles every literal containing a percent sign. Pass the text as an argument of \"%%s\"", fnKey(fn), canonFnName(callee), valueDesc(fa))
			}
		}
	}
	var ws []string
	for f := range wrap {
		ws = append(ws, f.Name())
	}
	sort.Strings(ws)
	s.OK(rule, "printf-like functions of the module", "-", "%d calls of printf-like functions examined; module functions that hand a parameter on as a format: %v", n, ws)
	_ = types.Typ
}

// globalOnlyInit: no function of the module other than a package initialiser stores to (or takes the address of) g.
func (m *Model) globalOnlyInit(g *ssa.Global) bool {
	for _, fn := range m.ModFns {
		if fn.Blocks == nil {
			continue
		}
		isInit := fn.Name() == "init" || (fn.Synthetic != "" && fn.Name() == "init")
		for _, b := range fn.Blocks {
			for _, in := range b.Instrs {
				for _, op := range in.Operands(nil) {
					if op == nil || *op != ssa.Value(g) {
						continue
					}
					switch x := in.(type) {
					case *ssa.UnOp:
						_ = x // a load
					case *ssa.Store:
						if x.Addr == ssa.Value(g) && !isInit {
							return false
						}
					default:
						if !isInit {
							return false // its address goes somewhere
						}
					}
				}
			}
		}
	}
	return true
}

func btoi(b bool) int {
	if b {
		return 1
	}
	return 0
}

// RunErrLayer — R-ERRLAYER (C02, C01): a fault of evaluation is raised when (and only when) the faulty construct is
// evaluated. The messages the evaluator uses for its faults (the fail.Err… constants referenced from package evaluator)
// are not raised by the parser: a parser that reports, say, a division by a literal zero makes an error surface for a
// branch that is never taken, and for a condition that follows the chosen branch.
func (m *Model) RunErrLayer(s *Sink, rule string) {
	uses := func(short string) map[string]string {
		out := map[string]string{}
		pk := m.ByPath[fullPkg(short)]
		if pk == nil {
			return nil
		}
		for id, obj := range pk.TypesInfo.Uses {
			c, ok := obj.(*types.Const)
			if !ok || c.Pkg() == nil || shortPkg(c.Pkg().Path()) != "fail" {
				continue
			}
			if _, seen := out[c.Name()]; !seen {
				out[c.Name()] = m.Pos(id.Pos())
			}
		}
		return out
	}
	ev, pa := uses("evaluator"), uses("parser")
	if ev == nil || pa == nil || len(ev) == 0 || len(pa) == 0 {
		s.Undecided(rule, "fault messages", "-", "the fail constants used by the evaluator and the parser could not be collected")
		return
	}
	var both []string
	for n := range pa {
		if _, ok := ev[n]; ok {
			both = append(both, n)
		}
	}
	sort.Strings(both)
	for _, n := range both {
		s.Violation(rule, "parser|raises the evaluation fault "+n, pa[n], "the parser raises fail.%s (at %s), a fault the evaluator raises when it evaluates the construct (at %s): reported while parsing, it fails templates whose faulty construct is never evaluated — a branch that is not taken, a condition after the chosen branch", n, pa[n], ev[n])
	}
	if len(both) == 0 {
		s.OK(rule, "parser|raises no evaluation fault", "-", "%d fault messages used by the evaluator, %d by the parser, none by both", len(ev), len(pa))
	}
}
