package main

import "golang.org/x/tools/go/ssa"

func init() {
	register(&PropInfo{
		ID:    "C03",
		Title: "@each/@for iterate in order with correct loop metadata, break/continue and @else",
		Rules: []string{
			"R-KEEP: a node a parse function returns is stored, passed on or returned on every path of its caller to a successful return",
			"R-WALK: a recursive walk of the parsed tree (the evaluator; a collector of components or inserts) that reads one parser-filled statement-holding field of a node type reads all of them (@each has a body and an @else)",
			"R-KINDS / R-OPTABLE: a nil slice converts to an empty array; postfix ++/-- yields a new object (no write through the operand)",
			"R-LOOP (evaluator state): no field of an existing Evaluator is written while evaluating, except counter steps",
			"R-BODYENTRY: every caller of the block parser, evaluated by cases on an abstract parser (token types as named unknowns), enters it only on a token it has looked at and that is not END / ELSE / ELSE_IF — an empty body is an empty block, not the enclosing construct's closer",
			"R-LOOP: in evalEachStmt/evalForStmt the break test follows the body evaluation on every path to the next pass, its true edge leaves the loop, the pass's output is written first; @each is an ascending range over the array's elements, binds the element through Set, and its loop object is exactly {index: i, iter: i+1, first: i==0, last: i==n-1} (normalised linear forms); @else only for an empty array / a condition false at entry; loops return rendered text, @else bodies the evaluated block; evalBlockStmt stops after the first break/continue, hasControlStmt recurses into nested blocks",
			"R-SCOPE: loop bodies and @else bodies are evaluated in NewEnclosedEnv(env); the loop object is bound on that fresh scope",
			"R-NILFIELD / R-ASSERT on the loop evaluators: optional @for clauses are nil-tested, the @each operand and the @for init are type-tested",
			"R-PREFIXKW: @break/@breakIf and @continue/@continueIf are told apart by the lexer",
		},
		Decided:     "TODO",
		NotDecided:  "TODO",
		Assumptions: trustedBase,
		Run: func(m *Model, s *Sink) {
			m.RunKeepParsed(s, "R-KEEP") // the body and the @else of a loop that were parsed are in the tree
			m.RunWalk(s, "R-WALK")       // a walk that descends into a construct descends into all of it
			m.RunOpTable(s, "R-OPTABLE") // the post clause steps a fresh value, not the object its variable was copied from
			m.RunKinds(s, "R-KINDS")     // a nil slice is an empty array: @each over it renders its @else
			m.RunEvalState(s, "R-LOOP")  // evaluation keeps no flags between constructs
			m.RunLoop(s, "R-LOOP")
			m.RunScope(s, "R-SCOPE")
			var fns []*ssa.Function
			for _, n := range []string{"evalEachStmt", "evalForStmt", "evalBlockStmt", "evalBreakIfStmt", "evalContinueIfStmt"} {
				if fn := m.Method("evaluator", "Evaluator", n); fn != nil {
					fns = append(fns, fn)
				}
			}
			m.RunNilField(s, "R-NILFIELD", fns)
			m.newAssertChecker(s).Run("R-ASSERT", fns)
			m.RunPrefixKW(s, "R-PREFIXKW")
			m.RunBlockStart(s, "R-BLOCKSTART") // an empty loop body is an empty body: its @else is not merged into it
			m.RunBodyEntry(s, "R-BODYENTRY")   // an empty body (of a slot, an insert, a branch, a loop) does not take the enclosing closer
			m.RunTruthUsers(s, "R-TRUTH")
			m.RunEvalErr(s, "R-EVALERR") // a failing condition / body / sub-expression fails the render instead of being treated as a value
			s.RequireMin("R-LOOP", 5, "the two loop statements by cases, block statement clauses")
		},
	})
}
