package main

// rule_response.go — R-RESPONSE (C17).

import (
	"fmt"
	"go/constant"
	"go/token"
	"go/types"
	"os"
	"path/filepath"
	"regexp"
	"strings"

	"golang.org/x/tools/go/ssa"
)

func (m *Model) RunResponse(s *Sink, rule string) {
	resp := m.Method("textwire", "Template", "Response")
	strFn := m.Method("textwire", "Template", "String")
	if resp == nil || strFn == nil || len(resp.Params) < 2 {
		s.Undecided(rule, "Response", "-", "(*Template).Response / String not found")
		return
	}
	rk := fnKey(resp)
	w := resp.Params[1]
	// (1) uses of w: only as the writer of Fprint-family calls, or handed to helpers that obey the same rule
	type wsite struct {
		fn   *ssa.Function
		call *ssa.Call
		what ssa.Value // the value written
	}
	var writes []wsite
	var helperCalls []*ssa.Call
	var checkW func(fn *ssa.Function, wv ssa.Value, depth int) string
	checkW = func(fn *ssa.Function, wv ssa.Value, depth int) string {
		var uses []ssa.Instruction
		var collect func(v ssa.Value)
		collect = func(v ssa.Value) {
			for _, r := range *v.Referrers() {
				switch x := r.(type) {
				case *ssa.MakeInterface:
					collect(x)
				case *ssa.ChangeInterface:
					collect(x)
				case *ssa.DebugRef:
				default:
					uses = append(uses, r)
				}
			}
		}
		collect(wv)
		for _, u := range uses {
			c, ok := u.(*ssa.Call)
			if !ok {
				return fmt.Sprintf("the response writer is used by %T at %s", u, m.InstrPos(u))
			}
			if sc := c.Call.StaticCallee(); sc != nil {
				name := fnFullName(sc)
				switch name {
				case "fmt.Fprint", "fmt.Fprintf", "fmt.Fprintln", "io.WriteString":
					var what ssa.Value
					if name == "io.WriteString" {
						what = c.Call.Args[1]
					} else {
						elems := variadicElems(c.Call.Args[len(c.Call.Args)-1])
						if len(elems) == 1 {
							what = stripIface(elems[0])
						}
					}
					writes = append(writes, wsite{fn, c, what})
					continue
				}
				if m.InModule(sc) && depth < 2 {
					if sc == strFn || canonFnName(sc) == "Eval" || canonFnName(sc) == "EvaluateString" {
						return "the response writer is handed to the renderer (" + canonFnName(sc) + "): output could be written before rendering has finished"
					}
					// helper: find the parameter it binds to
					for i, a := range c.Call.Args {
						if stripIface(a) == stripIface(wv) || a == wv {
							if i < len(sc.Params) {
								if fn == resp {
									helperCalls = append(helperCalls, c)
								}
								if why := checkW(sc, sc.Params[i], depth+1); why != "" {
									return why
								}
							}
						}
					}
					continue
				}
				return "the response writer is passed to " + name
			}
			if c.Call.IsInvoke() && (c.Call.Method.Name() == "Write" || c.Call.Method.Name() == "WriteHeader" || c.Call.Method.Name() == "Header") {
				if c.Call.Method.Name() == "Write" {
					writes = append(writes, wsite{fn, c, nil})
				}
				continue
			}
			return "the response writer is used in a dynamic call at " + m.InstrPos(c)
		}
		return ""
	}
	if why := checkW(resp, w, 0); why != "" {
		s.Violation(rule, rk+"|writer only receives finished output", m.Pos(resp.Pos()), "%s", why)
	} else {
		s.OK(rule, rk+"|writer only receives finished output", m.Pos(resp.Pos()), "the ResponseWriter flows only to %d Fprint-style calls (in Response and its helpers); it never reaches String/Eval", len(writes))
	}
	// (2)-(4) what is written and returned, decided by evaluating Response — together with whatever helpers its body is
	// split into — on every combination of the outcomes that matter: {render ok / failed} x {ErrorPagePath set / empty} x
	// {DebugMode on / off} x {custom page renders / fails} x {built-in page renders / fails}. The renders themselves are
	// abstract: String(FILE, data) yields the token "page", String(ErrorPagePath, _) "custom", errorPage(_) "builtin".
	failErrorM := m.Method("fail", "Error", "Error")
	nonNilCtor := failErrorM != nil && returnsFreshError(failErrorM)
	ep := m.PkgFuncOr("textwire", "errorPage", func(f *ssa.Function) bool { return readsGlobal(f, "defaultErrorPage") })
	type outcome struct {
		writes []string
		ret    string // nil | non-nil | unknown
		data   string // the data handed to the custom page render: nil | other | -
		stuck  string
	}
	run := func(ok bool, path string, debug, customOK, builtinOK bool) outcome {
		var out outcome
		out.data = "-"
		wTok, tTok := iObj{"w"}, iObj{"t"}
		ip := &Interp{m: m}
		ip.load = func(v *ssa.UnOp, dirty bool) (any, bool) {
			fp := fieldPathOf(v)
			switch {
			case strings.HasSuffix(fp, ".ErrorPagePath"):
				return constant.MakeString(path), true
			case strings.HasSuffix(fp, ".DebugMode"):
				return constant.MakeBool(debug), true
			}
			return nil, false
		}
		errOr := func(good bool, name string) any {
			if good {
				return iNil{}
			}
			return iObj{name}
		}
		ip.call = func(c *ssa.Call, args []any) (any, bool) {
			if c.Call.IsInvoke() {
				if len(args) > 0 && args[0] == any(wTok) {
					switch c.Call.Method.Name() {
					case "Write":
						out.writes = append(out.writes, "?")
						return nil, true
					case "WriteHeader", "Header":
						return nil, true
					}
				}
				return nil, false
			}
			sc := c.Call.StaticCallee()
			if sc == nil {
				return nil, false
			}
			switch {
			case sc == strFn && len(args) == 3:
				if k, isK := args[1].(constant.Value); isK && k.Kind() == constant.String {
					switch constant.StringVal(k) {
					case "FILE":
						return iTuple{iObj{"page"}, errOr(ok, "renderErr")}, true
					case path:
						switch args[2].(type) {
						case iNil:
							out.data = "nil"
						default:
							out.data = "other"
						}
						return iTuple{iObj{"custom"}, errOr(customOK, "customErr")}, true
					}
				}
				return nil, true
			case ep != nil && sc == ep:
				return iTuple{iObj{"builtin"}, errOr(builtinOK, "builtinErr")}, true
			case sc == failErrorM:
				if nonNilCtor && len(args) == 1 {
					if _, isObj := args[0].(iObj); isObj {
						return iObj{"error value"}, true
					}
				}
				return nil, true
			}
			name := fnFullName(sc)
			switch name {
			case "fmt.Fprint", "fmt.Fprintf", "fmt.Fprintln", "io.WriteString":
				if len(args) < 2 || args[0] != any(wTok) {
					return nil, true
				}
				what := "?"
				switch x := args[len(args)-1].(type) {
				case iSlice:
					if x.high-x.lo == 1 && name != "fmt.Fprintf" {
						if o, isO := x.arr.elems[x.lo].(iObj); isO {
							what = o.kind
						}
					}
				case iObj:
					what = x.kind
				}
				out.writes = append(out.writes, what)
				return nil, true
			}
			if !m.InModule(sc) {
				for _, a := range args {
					if a == any(wTok) {
						out.writes = append(out.writes, "?") // the writer handed to library code we do not model: may write anything
					}
				}
			}
			return nil, false
		}
		args := make([]any, len(resp.Params))
		args[0], args[1] = tTok, wTok
		if len(args) > 2 {
			args[2] = constant.MakeString("FILE")
		}
		if len(args) > 3 {
			args[3] = iObj{"data"}
		}
		res, known := ip.Run(resp, args)
		out.stuck = ip.stuck
		for _, l := range ip.lost {
			out.stuck = "helper " + fnKey(l) + " could not be evaluated"
		}
		switch r := res.(type) {
		case iNil:
			out.ret = "nil"
		case iObj:
			out.ret = "non-nil"
		default:
			_ = r
			out.ret = "unknown"
		}
		if !known && out.ret != "unknown" {
			out.ret = "unknown"
		}
		return out
	}
	type verdict struct {
		ok     bool
		detail string
	}
	verdicts := map[string]*verdict{}
	keys := []string{
		"on success the page is the whole body and nil is returned",
		"on failure a non-nil error is returned",
		"on failure no part of the failed page is written",
		"custom error page exactly when configured and debug mode is off",
		"built-in error page otherwise",
		"a failing error page leaves the body empty",
		"custom page rendered with nil data",
		"at most one body per response",
	}
	for _, k := range keys {
		verdicts[k] = &verdict{ok: true}
	}
	fail := func(k, format string, args ...any) {
		v := verdicts[k]
		if v.ok {
			v.ok = false
			v.detail = fmt.Sprintf(format, args...)
		}
	}
	undecided := ""
	nCases := 0
	bools := []bool{true, false}
	for _, ok := range bools {
		for _, path := range []string{"", "EP"} {
			for _, debug := range bools {
				for _, customOK := range bools {
					for _, builtinOK := range bools {
						o := run(ok, path, debug, customOK, builtinOK)
						nCases++
						desc := fmt.Sprintf("render ok=%v, ErrorPagePath=%q, DebugMode=%v, custom page ok=%v, built-in page ok=%v", ok, path, debug, customOK, builtinOK)
						if o.stuck != "" {
							undecided = desc + ": " + o.stuck
							continue
						}
						got := strings.Join(o.writes, ",")
						if len(o.writes) > 1 {
							fail("at most one body per response", "with %s the body receives %s", desc, got)
						}
						if ok {
							if got != "page" || o.ret != "nil" {
								fail("on success the page is the whole body and nil is returned", "with %s the body receives [%s] and the result is %s", desc, got, o.ret)
							}
							continue
						}
						if o.ret != "non-nil" {
							fail("on failure a non-nil error is returned", "with %s the result is %s: the caller would take the failed response for a success", desc, o.ret)
						}
						for _, w := range o.writes {
							if w == "page" || w == "?" {
								fail("on failure no part of the failed page is written", "with %s the body receives [%s]", desc, got)
							}
						}
						custom := path != "" && !debug
						want := ""
						switch {
						case custom && customOK:
							want = "custom"
						case !custom && builtinOK:
							want = "builtin"
						}
						if got != want {
							switch {
							case want == "":
								fail("a failing error page leaves the body empty", "with %s the body receives [%s], expected nothing", desc, got)
							case custom:
								fail("custom error page exactly when configured and debug mode is off", "with %s the body receives [%s], expected the custom page", desc, got)
							default:
								fail("built-in error page otherwise", "with %s the body receives [%s], expected the built-in page", desc, got)
							}
						}
						if custom && o.data != "nil" {
							fail("custom page rendered with nil data", "with %s the custom page is rendered with data %s: details of the failure could leak with debug mode off", desc, o.data)
						}
					}
				}
			}
		}
	}
	if undecided != "" {
		s.Undecided(rule, rk+"|case evaluation", m.Pos(resp.Pos()), "Response could not be evaluated for the case %s", undecided)
	} else {
		for _, k := range keys {
			v := verdicts[k]
			if v.ok {
				s.OK(rule, rk+"|"+k, m.Pos(resp.Pos()), "case evaluation over %d outcome combinations", nCases)
			} else {
				s.Violation(rule, rk+"|"+k, m.Pos(resp.Pos()), "%s", v.detail)
			}
		}
	}
	if !nonNilCtor {
		s.Violation(rule, "fail.(*Error).Error|never nil", "-", "(*fail.Error).Error does not build its result with errors.New / fmt.Errorf on every path: a failed response could return a nil error")
	} else {
		s.OK(rule, "fail.(*Error).Error|never nil", m.Pos(failErrorM.Pos()), "every return is errors.New / fmt.Errorf")
	}
	// (5) built-in page: debugMode comes from the configuration; secrets only inside @if(debugMode)
	if ep == nil {
		s.Undecided(rule, "textwire.errorPage", "-", "errorPage not found")
		return
	}
	okDebug := false
	var epBlocks []*ssa.BasicBlock
	for _, h := range m.helpersOf(ep) { // errorPage and the private helpers its body is split into (the data map may be built by one)
		epBlocks = append(epBlocks, h.Blocks...)
	}
	for _, b := range epBlocks {
		for _, in := range b.Instrs {
			mu, ok := in.(*ssa.MapUpdate)
			if !ok {
				continue
			}
			if k, ok := constOfValue(mu.Key); ok && k == "debugMode" {
				all := true
				val := mu.Value
				if mi, isMI := val.(*ssa.MakeInterface); isMI {
					val = mi.X
				}
				vals := m.resolveUp(val, ep, 0) // a helper that builds the data gets the setting from errorPage
				for _, v := range vals {
					if !strings.HasSuffix(fieldPathOf(v), ".DebugMode") {
						all = false
					}
				}
				if all && len(vals) > 0 {
					okDebug = true
				}
			}
		}
	}
	if okDebug {
		s.OK(rule, "textwire.errorPage|debugMode from configuration", m.Pos(ep.Pos()), "data[\"debugMode\"] = userConfig.DebugMode")
	} else {
		s.Violation(rule, "textwire.errorPage|debugMode from configuration", m.Pos(ep.Pos()), "the built-in error page does not receive debugMode from userConfig.DebugMode: message, path and line would be shown (or hidden) regardless of the setting")
	}
	// the debug setting is installed as given — on AND off: a store of the option under "the option is true" can switch
	// debugging on but never off again, and the next failing response shows message, path and line
	nDbg, badDbg := 0, ""
	for _, fn := range m.ModFns {
		if fn.Blocks == nil || isUserPkg(fnPkgPath(fn)) {
			continue
		}
		for _, b := range fn.Blocks {
			for _, in := range b.Instrs {
				st, isSt := in.(*ssa.Store)
				if !isSt {
					continue
				}
				fa, isFA := st.Addr.(*ssa.FieldAddr)
				if !isFA || fieldName(fa.X.Type(), fa.Field) != "DebugMode" || !strings.HasSuffix(derefTypeString(fa.X.Type()), "config.Config") {
					continue
				}
				if _, fresh := fa.X.(*ssa.Alloc); fresh {
					continue // filling in a new configuration value
				}
				nDbg++
				if !strings.HasSuffix(fieldPathOf(st.Val), ".DebugMode") {
					continue // a constant default etc.
				}
				for _, f := range expandFacts(factsAt(b)) {
					if strings.HasSuffix(fieldPathOf(f.Cond), ".DebugMode") {
						badDbg = m.InstrPos(st)
					}
				}
			}
		}
	}
	switch {
	case nDbg == 0:
		s.Undecided(rule, "configuration|the debug setting is installed as given", "-", "no store into a configuration's DebugMode found")
	case badDbg != "":
		s.Violation(rule, "configuration|the debug setting is installed as given", badDbg, "the debug setting is copied only when it has a particular value (store at %s under a test of the option itself): once switched on it cannot be switched off through Configure / NewTemplate, and a failing response keeps showing the error message, the path and the line", badDbg)
	default:
		s.OK(rule, "configuration|the debug setting is installed as given", "-", "DebugMode is copied from the given configuration unconditionally (%d stores)", nDbg)
	}
	m.checkErrorPageTemplate(s, rule)
}

func returnsFreshError(fn *ssa.Function) bool {
	for _, b := range fn.Blocks {
		if r, ok := b.Instrs[len(b.Instrs)-1].(*ssa.Return); ok {
			c, ok := r.Results[0].(*ssa.Call)
			if !ok || c.Call.StaticCallee() == nil {
				return false
			}
			n := fnFullName(c.Call.StaticCallee())
			if n != "errors.New" && n != "fmt.Errorf" {
				return false
			}
		}
	}
	return true
}

// checkErrorPageTemplate scans the embedded default error page (source: it is go:embed-ed):
// every {{ }} mentioning message, path or line lies in the true branch of an @if(debugMode).
func (m *Model) checkErrorPageTemplate(s *Sink, rule string) {
	file := ""
	pkg := m.ByPath[modPath]
	if pkg != nil {
		for _, f := range pkg.EmbedFiles {
			if strings.HasSuffix(f, "default-error-page.tw") {
				file = f
			}
		}
	}
	if file == "" {
		file = filepath.Join(m.Repo, "textwire", "default-error-page.tw")
	}
	b, err := os.ReadFile(file)
	key := "textwire/default-error-page.tw|message, path and line only under @if(debugMode)"
	if err != nil {
		s.Undecided(rule, key, "-", "embedded error page not readable: %v", err)
		return
	}
	src := string(b)
	tokRe := regexp.MustCompile(`@(if|elseif|else|end|each|for|component|slot|insert)\b(\([^)]*\))?|\{\{[^}]*\}\}`)
	type frame struct {
		kind   string
		secure bool // inside the true branch of @if(debugMode)
	}
	var stack []frame
	secureNow := func() bool {
		for _, f := range stack {
			if f.secure {
				return true
			}
		}
		return false
	}
	secret := regexp.MustCompile(`\b(message|path|line)\b`)
	bad := ""
	nExpr := 0
	for _, loc := range tokRe.FindAllStringIndex(src, -1) {
		t := src[loc[0]:loc[1]]
		line := 1 + strings.Count(src[:loc[0]], "\n")
		switch {
		case strings.HasPrefix(t, "{{"):
			if secret.MatchString(t) {
				nExpr++
				if !secureNow() {
					bad = fmt.Sprintf("%s at line %d is outside @if(debugMode)", strings.TrimSpace(t), line)
				}
			}
		case strings.HasPrefix(t, "@if"):
			cond := strings.TrimSpace(strings.Trim(strings.TrimPrefix(t, "@if"), "()"))
			stack = append(stack, frame{"if", cond == "debugMode"})
		case strings.HasPrefix(t, "@elseif"), strings.HasPrefix(t, "@else"):
			if len(stack) > 0 {
				stack[len(stack)-1].secure = false
			}
		case strings.HasPrefix(t, "@each"), strings.HasPrefix(t, "@for"), strings.HasPrefix(t, "@component"), strings.HasPrefix(t, "@insert"):
			if secret.MatchString(t) && !secureNow() {
				bad = fmt.Sprintf("%s at line %d is outside @if(debugMode)", t, line)
			}
			if !strings.HasPrefix(t, "@component") {
				stack = append(stack, frame{"block", false})
			}
		case strings.HasPrefix(t, "@end"):
			if len(stack) > 0 {
				stack = stack[:len(stack)-1]
			}
		}
	}
	rel, _ := filepath.Rel(m.Repo, file)
	switch {
	case bad != "":
		s.Violation(rule, key, rel, "the built-in error page shows failure details with debug mode off: %s", bad)
	case nExpr == 0:
		s.Undecided(rule, key, rel, "the page mentions none of message/path/line: with debug mode on the body must contain them")
	default:
		s.OK(rule, key, rel, "%d expressions mention message/path/line, all inside the true branch of @if(debugMode)", nExpr)
	}
}

// RunConfigSource: what Response consults when a render fails — the debug flag and the error page — is the current
// configuration: every read of Config.DebugMode / Config.ErrorPagePath in the functions of the root package that
// Response reaches is rooted in the package-level configuration (directly, or through a parameter every caller fills
// from it), not in a copy kept on the Template. A copy goes stale at the next Configure, and the built-in page (which
// reads the package-level value) then disagrees with the choice of page.
func (m *Model) RunConfigSource(s *Sink, rule string) {
	resp := m.Method("textwire", "Template", "Response")
	confT := m.namedType("config", "Config")
	if resp == nil || confT == nil {
		s.Undecided(rule, "textwire.(*Template).Response|configuration source", "-", "Response / config.Config not found")
		return
	}
	n, bad := 0, ""
	for _, fn := range m.reachableFns([]*ssa.Function{resp}) {
		if fn.Blocks == nil || shortPkg(fnPkgPath(fn)) != "textwire" {
			continue
		}
		for _, b := range fn.Blocks {
			for _, in := range b.Instrs {
				fa, ok := in.(*ssa.FieldAddr)
				if !ok {
					continue
				}
				nt := ptrNamed(fa.X.Type())
				if nt == nil || !types.Identical(nt, confT) {
					continue
				}
				if fname := fieldName(fa.X.Type(), fa.Field); fname != "DebugMode" && fname != "ErrorPagePath" {
					continue
				}
				isRead := false
				if fa.Referrers() != nil {
					for _, r := range *fa.Referrers() {
						if ld, isLd := r.(*ssa.UnOp); isLd && ld.Op == token.MUL {
							isRead = true
						}
					}
				}
				if !isRead {
					continue
				}
				n++
				for _, base := range m.resolveUp(fa.X, resp, 0) {
					root, _, okP := pathOf(base)
					g, isG := root.(*ssa.Global)
					if ld, isLd := base.(*ssa.UnOp); isLd && !okP {
						g, isG = ld.X.(*ssa.Global)
					}
					if gg, isGG := base.(*ssa.Global); isGG {
						g, isG = gg, true
					}
					if (!isG || g == nil) && bad == "" {
						bad = fmt.Sprintf("%s reads %s of %s at %s", fnKey(fn), fieldName(fa.X.Type(), fa.Field), valueDesc(base), m.InstrPos(fa))
					}
				}
			}
		}
	}
	key := "textwire.(*Template).Response|debug flag and error page are read from the current configuration"
	switch {
	case n == 0:
		s.Undecided(rule, key, m.Pos(resp.Pos()), "no read of Config.DebugMode / Config.ErrorPagePath found on the path of Response")
	case bad != "":
		s.Violation(rule, key, m.Pos(resp.Pos()), "%s: a configuration that is not the package-level one (a copy taken when the templates were loaded) goes stale at the next Configure — the custom page is chosen although debugging is on, or the built-in page although a custom one is set, while the built-in page itself reads the current flag", bad)
	default:
		s.OK(rule, key, m.Pos(resp.Pos()), "%d reads, all rooted in the package-level configuration", n)
	}
}

// RunDebugReaders: the debug flag decides what a failed response shows, nothing else: it is read in the root package
// only. An evaluator, parser or lexer that looks at it makes what a template evaluates to (which conditions are
// evaluated, which errors surface) depend on a process-wide setting.
func (m *Model) RunDebugReaders(s *Sink, rule string) {
	confT := m.namedType("config", "Config")
	if confT == nil {
		s.Undecided(rule, "config.Config", "-", "not found")
		return
	}
	n, bad := 0, 0
	for _, fn := range m.ModFns {
		if fn.Blocks == nil || isUserPkg(fnPkgPath(fn)) {
			continue
		}
		for _, b := range fn.Blocks {
			for _, in := range b.Instrs {
				fa, ok := in.(*ssa.FieldAddr)
				if !ok {
					continue
				}
				nt := ptrNamed(fa.X.Type())
				if nt == nil || !types.Identical(nt, confT) || fieldName(fa.X.Type(), fa.Field) != "DebugMode" || fa.Referrers() == nil {
					continue
				}
				isRead := false
				for _, r := range *fa.Referrers() {
					if ld, isLd := r.(*ssa.UnOp); isLd && ld.Op == token.MUL {
						isRead = true
					}
				}
				if !isRead {
					continue
				}
				n++
				if sp := shortPkg(fnPkgPath(fn)); sp != "textwire" && sp != "config" {
					bad++
					s.Violation(rule, fnKey(fn)+"|reads the debug flag", m.InstrPos(fa), "%s reads Config.DebugMode: the flag is meant to decide what a failed response shows; read while lexing, parsing or evaluating it makes the result of a template (which conditions are evaluated, which faults surface) depend on a process-wide setting", fnKey(fn))
				}
			}
		}
	}
	if bad == 0 {
		s.OK(rule, "config.DebugMode|read in the root package only", "-", "%d reads, none in lexer, parser, evaluator or object", n)
	}
}

// RunErrorPageData: the built-in error page names message, path, line and debugMode; an identifier that is not bound
// makes the page itself fail ("identifier 'line' not found"), and Response then writes an empty body. Each of these
// keys is stored into the page's data on every path (a store whose block dominates every return of its function) —
// also for an error without a line or a path (a template that was not found has line 0).
func (m *Model) RunErrorPageData(s *Sink, rule string) {
	ep := m.PkgFuncOr("textwire", "errorPage", func(f *ssa.Function) bool { return readsGlobal(f, "defaultErrorPage") })
	if ep == nil {
		s.Undecided(rule, "textwire.errorPage|data", "-", "errorPage not found")
		return
	}
	// functions that can build the data: errorPage, its private helpers, and what they call statically in package fail
	fns := map[*ssa.Function]bool{}
	for _, h := range m.helpersOf(ep) {
		fns[h] = true
		for _, b := range h.Blocks {
			for _, in := range b.Instrs {
				if c, ok := in.(*ssa.Call); ok && c.Call.StaticCallee() != nil && m.InModule(c.Call.StaticCallee()) && c.Call.StaticCallee().Blocks != nil {
					if _, isMap := c.Type().Underlying().(*types.Map); isMap {
						fns[c.Call.StaticCallee()] = true
					}
				}
			}
		}
	}
	always := map[string]bool{}
	seen := map[string]string{}
	for fn := range fns {
		var rets []*ssa.BasicBlock
		for _, b := range fn.Blocks {
			if _, isRet := b.Instrs[len(b.Instrs)-1].(*ssa.Return); isRet {
				rets = append(rets, b)
			}
		}
		for _, b := range fn.Blocks {
			for _, in := range b.Instrs {
				mu, ok := in.(*ssa.MapUpdate)
				if !ok {
					continue
				}
				k, isK := constOfValue(mu.Key)
				if !isK {
					continue
				}
				seen[k] = m.InstrPos(mu)
				dom := len(rets) > 0
				for _, r := range rets {
					if !b.Dominates(r) {
						dom = false
					}
				}
				if dom {
					always[k] = true
				}
			}
		}
	}
	for _, k := range []string{"message", "path", "line", "debugMode"} {
		key := "textwire.errorPage|the page's variable " + k + " is always bound"
		switch {
		case always[k]:
			s.OK(rule, key, seen[k], "stored on every path")
		case seen[k] != "":
			s.Violation(rule, key, seen[k], "the data of the built-in error page gets %q only on some paths (the store at %s is conditional): for an error without it — a template that was not found has line 0 — the page's own identifier is unbound, the page fails with \"identifier not found\", and the response body is empty instead of the debug page", k, seen[k])
		default:
			s.Note(rule, key, "-", "no store of this key found (the page may not use it)")
		}
	}
}
