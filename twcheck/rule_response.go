package main

// rule_response.go — R-RESPONSE (C17).

import (
	"fmt"
	"go/token"
	"os"
	"path/filepath"
	"regexp"
	"strings"

	"golang.org/x/tools/go/ssa"
)

func (m *Model) RunResponse(s *Sink, rule string) {
	resp := m.Method("textwire", "Template", "Response")
	strFn := m.Method("textwire", "Template", "String")
	if resp == nil || strFn == nil || len(resp.Params) < 2 {
		s.Undecided(rule, "Response", "-", "(*Template).Response / String not found")
		return
	}
	rk := fnKey(resp)
	w := resp.Params[1]
	// the render whose result is written
	var render *ssa.Call
	for _, b := range resp.Blocks {
		for _, in := range b.Instrs {
			if c, ok := in.(*ssa.Call); ok && c.Call.StaticCallee() == strFn && render == nil {
				render = c
			}
		}
	}
	if render == nil {
		s.Undecided(rule, rk+"|renders through String", m.Pos(resp.Pos()), "Response does not call (*Template).String")
		return
	}
	var evaluated, failErr ssa.Value
	for _, r := range *render.Referrers() {
		if ex, ok := r.(*ssa.Extract); ok {
			if ex.Index == 0 {
				evaluated = ex
			} else if ex.Index == 1 {
				failErr = ex
			}
		}
	}
	if failErr == nil {
		s.Violation(rule, rk+"|render error is examined", m.InstrPos(render), "Response ignores the error result of String")
		return
	}
	// (1) uses of w: only as the writer of Fprint-family calls, or handed to helpers that obey the same rule
	type wsite struct {
		fn   *ssa.Function
		call *ssa.Call
		what ssa.Value // the value written
	}
	var writes []wsite
	var helperCalls []*ssa.Call
	var checkW func(fn *ssa.Function, wv ssa.Value, depth int) string
	checkW = func(fn *ssa.Function, wv ssa.Value, depth int) string {
		var uses []ssa.Instruction
		var collect func(v ssa.Value)
		collect = func(v ssa.Value) {
			for _, r := range *v.Referrers() {
				switch x := r.(type) {
				case *ssa.MakeInterface:
					collect(x)
				case *ssa.ChangeInterface:
					collect(x)
				case *ssa.DebugRef:
				default:
					uses = append(uses, r)
				}
			}
		}
		collect(wv)
		for _, u := range uses {
			c, ok := u.(*ssa.Call)
			if !ok {
				return fmt.Sprintf("the response writer is used by %T at %s", u, m.InstrPos(u))
			}
			if sc := c.Call.StaticCallee(); sc != nil {
				name := fnFullName(sc)
				switch name {
				case "fmt.Fprint", "fmt.Fprintf", "fmt.Fprintln", "io.WriteString":
					var what ssa.Value
					if name == "io.WriteString" {
						what = c.Call.Args[1]
					} else {
						elems := variadicElems(c.Call.Args[len(c.Call.Args)-1])
						if len(elems) == 1 {
							what = stripIface(elems[0])
						}
					}
					writes = append(writes, wsite{fn, c, what})
					continue
				}
				if m.InModule(sc) && depth < 2 {
					if sc == strFn || sc.Name() == "Eval" || sc.Name() == "EvaluateString" {
						return "the response writer is handed to the renderer (" + sc.Name() + "): output could be written before rendering has finished"
					}
					// helper: find the parameter it binds to
					for i, a := range c.Call.Args {
						if stripIface(a) == stripIface(wv) || a == wv {
							if i < len(sc.Params) {
								if fn == resp {
									helperCalls = append(helperCalls, c)
								}
								if why := checkW(sc, sc.Params[i], depth+1); why != "" {
									return why
								}
							}
						}
					}
					continue
				}
				return "the response writer is passed to " + name
			}
			if c.Call.IsInvoke() && (c.Call.Method.Name() == "Write" || c.Call.Method.Name() == "WriteHeader" || c.Call.Method.Name() == "Header") {
				if c.Call.Method.Name() == "Write" {
					writes = append(writes, wsite{fn, c, nil})
				}
				continue
			}
			return "the response writer is used in a dynamic call at " + m.InstrPos(c)
		}
		return ""
	}
	if why := checkW(resp, w, 0); why != "" {
		s.Violation(rule, rk+"|writer only receives finished output", m.Pos(resp.Pos()), "%s", why)
	} else {
		s.OK(rule, rk+"|writer only receives finished output", m.Pos(resp.Pos()), "the ResponseWriter flows only to %d Fprint-style calls (in Response and its helpers); it never reaches String/Eval", len(writes))
	}
	// (2) each write in Response is dominated by the nil-error edge of the render it writes; at most one write per path
	a := m.NewArith(resp)
	isNilFact := func(b *ssa.BasicBlock, v ssa.Value, wantNil bool) bool {
		for _, f := range expandFacts(factsAt(b)) {
			bo, ok := f.Cond.(*ssa.BinOp)
			if !ok || (bo.Op != token.EQL && bo.Op != token.NEQ) {
				continue
			}
			var other ssa.Value
			if a.canonKey(bo.X) == a.canonKey(v) {
				other = bo.Y
			} else if a.canonKey(bo.Y) == a.canonKey(v) {
				other = bo.X
			} else {
				continue
			}
			if k, ok := other.(*ssa.Const); ok && k.IsNil() {
				isNil := (bo.Op == token.EQL) == f.Holds
				if isNil == wantNil {
					return true
				}
			}
		}
		return false
	}
	for _, ws := range writes {
		if ws.fn != resp {
			continue
		}
		key := fmt.Sprintf("%s|write of %s only after its render succeeded", rk, valueDesc(ws.what))
		ok := false
		why := ""
		switch {
		case ws.what != nil && ws.what == evaluated:
			ok = isNilFact(ws.call.Block(), failErr, true)
			why = "the page output is written on a path where the render error is not known to be nil: part of a failed page could reach the body"
		case ws.what != nil:
			// output of another producer: (out, err) := f(...); must be under err == nil
			if ex, isEx := ws.what.(*ssa.Extract); isEx {
				for _, r := range *ex.Tuple.Referrers() {
					if e2, ok2 := r.(*ssa.Extract); ok2 && e2.Index == 1 {
						ok = isNilFact(ws.call.Block(), e2, true)
					}
				}
				why = "the error page is written although producing it may have failed"
			}
		}
		if ok {
			s.OK(rule, key, m.InstrPos(ws.call), "dominated by the nil edge of the error returned together with the written value")
		} else {
			if why == "" {
				why = "the written value is not the result of a render guarded by its error"
			}
			s.Violation(rule, key, m.InstrPos(ws.call), "%s", why)
		}
	}
	// at most one write per path (direct writes and helper calls that write)
	ctx := m.Ctx(resp)
	var wpoints []ssa.Instruction
	for _, ws := range writes {
		if ws.fn == resp {
			wpoints = append(wpoints, ws.call)
		}
	}
	for _, hc := range helperCalls {
		wpoints = append(wpoints, hc)
	}
	multi := false
	for _, x := range wpoints {
		for _, y := range wpoints {
			if x != y && ctx.instrReaches(x, y) {
				multi = true
			}
		}
	}
	if multi {
		s.Violation(rule, rk+"|at most one body per response", m.Pos(resp.Pos()), "one write to the response can be followed by another on the same path: the body would contain the page (or an error page) and a second page")
	} else {
		s.OK(rule, rk+"|at most one body per response", m.Pos(resp.Pos()), "%d write points, none reaches another", len(wpoints))
	}
	// (3) return values
	failErrorM := m.Method("fail", "Error", "Error")
	nonNilCtor := failErrorM != nil && returnsFreshError(failErrorM)
	for _, b := range resp.Blocks {
		r, ok := b.Instrs[len(b.Instrs)-1].(*ssa.Return)
		if !ok || len(r.Results) != 1 {
			continue
		}
		v := r.Results[0]
		success := isNilFact(b, failErr, true)
		key := fmt.Sprintf("%s|return %s", rk, valueDesc(v))
		if success {
			if k, ok := v.(*ssa.Const); ok && k.IsNil() {
				s.OK(rule, key+" on success", m.InstrPos(r), "nil is returned exactly on the path where rendering succeeded")
			} else {
				s.Violation(rule, key+" on success", m.InstrPos(r), "Response returns a possibly non-nil error although rendering succeeded")
			}
			continue
		}
		nonNil := false
		if k, ok := v.(*ssa.Const); ok && k.IsNil() {
			nonNil = false
		} else if isNilFact(b, v, false) {
			nonNil = true
		} else if c, ok := v.(*ssa.Call); ok && c.Call.StaticCallee() == failErrorM && nonNilCtor {
			nonNil = true
		}
		if nonNil {
			s.OK(rule, key+" on failure", m.InstrPos(r), "non-nil by construction (tested non-nil, or built by errors.New)")
		} else {
			s.Violation(rule, key+" on failure", m.InstrPos(r), "on a path where rendering failed Response returns %s, which is not known to be non-nil: the caller would take the failed response for a success", valueDesc(v))
		}
	}
	// (4) custom error page chosen exactly under ErrorPagePath != "" && !DebugMode, rendered with nil data
	helper := m.Method("textwire", "Template", "responseErrorPage")
	if len(helperCalls) == 0 || helper == nil {
		s.Note(rule, rk+"|custom error page", m.Pos(resp.Pos()), "no helper writing a custom error page found")
	} else {
		for _, hc := range helperCalls {
			facts := expandFacts(factsAt(hc.Block()))
			hasPath, debugOff := false, false
			for _, f := range facts {
				switch c := f.Cond.(type) {
				case *ssa.BinOp:
					if strings.HasSuffix(fieldPathOf(c.X), ".ErrorPagePath") && isEmptyStringConst(c.Y) && (c.Op == token.NEQ) == f.Holds {
						hasPath = true
					}
				case *ssa.UnOp:
					if strings.HasSuffix(fieldPathOf(c), ".DebugMode") && !f.Holds {
						debugOff = true
					}
				}
			}
			key := rk + "|custom error page only when configured and debug mode is off"
			if hasPath && debugOff {
				s.OK(rule, key, m.InstrPos(hc), "dominated by ErrorPagePath != \"\" and !DebugMode")
			} else {
				s.Violation(rule, key, m.InstrPos(hc), "the custom error page is written without both conditions (a configured ErrorPagePath and DebugMode off) holding on the path")
			}
		}
		// nil data
		okNil := false
		for _, b := range helper.Blocks {
			for _, in := range b.Instrs {
				if c, ok := in.(*ssa.Call); ok && c.Call.StaticCallee() == strFn {
					if k, ok := c.Call.Args[len(c.Call.Args)-1].(*ssa.Const); ok && k.IsNil() {
						okNil = true
					}
				}
			}
		}
		if okNil {
			s.OK(rule, fnKey(helper)+"|custom page rendered with nil data", m.Pos(helper.Pos()), "nothing of the failure is passed to the custom page")
		} else {
			s.Violation(rule, fnKey(helper)+"|custom page rendered with nil data", m.Pos(helper.Pos()), "the custom error page receives data: details of the failure could leak with debug mode off")
		}
	}
	// (5) built-in page: debugMode comes from the configuration; secrets only inside @if(debugMode)
	ep := m.PkgFunc("textwire", "errorPage")
	if ep == nil {
		s.Undecided(rule, "textwire.errorPage", "-", "errorPage not found")
		return
	}
	okDebug := false
	for _, b := range ep.Blocks {
		for _, in := range b.Instrs {
			mu, ok := in.(*ssa.MapUpdate)
			if !ok {
				continue
			}
			if k, ok := constOfValue(mu.Key); ok && k == "debugMode" {
				if strings.HasSuffix(fieldPathOf(mu.Value), ".DebugMode") {
					okDebug = true
				}
			}
		}
	}
	if okDebug {
		s.OK(rule, "textwire.errorPage|debugMode from configuration", m.Pos(ep.Pos()), "data[\"debugMode\"] = userConfig.DebugMode")
	} else {
		s.Violation(rule, "textwire.errorPage|debugMode from configuration", m.Pos(ep.Pos()), "the built-in error page does not receive debugMode from userConfig.DebugMode: message, path and line would be shown (or hidden) regardless of the setting")
	}
	m.checkErrorPageTemplate(s, rule)
}

func returnsFreshError(fn *ssa.Function) bool {
	for _, b := range fn.Blocks {
		if r, ok := b.Instrs[len(b.Instrs)-1].(*ssa.Return); ok {
			c, ok := r.Results[0].(*ssa.Call)
			if !ok || c.Call.StaticCallee() == nil {
				return false
			}
			n := fnFullName(c.Call.StaticCallee())
			if n != "errors.New" && n != "fmt.Errorf" {
				return false
			}
		}
	}
	return true
}

// checkErrorPageTemplate scans the embedded default error page (source: it is go:embed-ed):
// every {{ }} mentioning message, path or line lies in the true branch of an @if(debugMode).
func (m *Model) checkErrorPageTemplate(s *Sink, rule string) {
	file := ""
	pkg := m.ByPath[modPath]
	if pkg != nil {
		for _, f := range pkg.EmbedFiles {
			if strings.HasSuffix(f, "default-error-page.tw") {
				file = f
			}
		}
	}
	if file == "" {
		file = filepath.Join(m.Repo, "textwire", "default-error-page.tw")
	}
	b, err := os.ReadFile(file)
	key := "textwire/default-error-page.tw|message, path and line only under @if(debugMode)"
	if err != nil {
		s.Undecided(rule, key, "-", "embedded error page not readable: %v", err)
		return
	}
	src := string(b)
	tokRe := regexp.MustCompile(`@(if|elseif|else|end|each|for|component|slot|insert)\b(\([^)]*\))?|\{\{[^}]*\}\}`)
	type frame struct {
		kind   string
		secure bool // inside the true branch of @if(debugMode)
	}
	var stack []frame
	secureNow := func() bool {
		for _, f := range stack {
			if f.secure {
				return true
			}
		}
		return false
	}
	secret := regexp.MustCompile(`\b(message|path|line)\b`)
	bad := ""
	nExpr := 0
	for _, loc := range tokRe.FindAllStringIndex(src, -1) {
		t := src[loc[0]:loc[1]]
		line := 1 + strings.Count(src[:loc[0]], "\n")
		switch {
		case strings.HasPrefix(t, "{{"):
			if secret.MatchString(t) {
				nExpr++
				if !secureNow() {
					bad = fmt.Sprintf("%s at line %d is outside @if(debugMode)", strings.TrimSpace(t), line)
				}
			}
		case strings.HasPrefix(t, "@if"):
			cond := strings.TrimSpace(strings.Trim(strings.TrimPrefix(t, "@if"), "()"))
			stack = append(stack, frame{"if", cond == "debugMode"})
		case strings.HasPrefix(t, "@elseif"), strings.HasPrefix(t, "@else"):
			if len(stack) > 0 {
				stack[len(stack)-1].secure = false
			}
		case strings.HasPrefix(t, "@each"), strings.HasPrefix(t, "@for"), strings.HasPrefix(t, "@component"), strings.HasPrefix(t, "@insert"):
			if secret.MatchString(t) && !secureNow() {
				bad = fmt.Sprintf("%s at line %d is outside @if(debugMode)", t, line)
			}
			if !strings.HasPrefix(t, "@component") {
				stack = append(stack, frame{"block", false})
			}
		case strings.HasPrefix(t, "@end"):
			if len(stack) > 0 {
				stack = stack[:len(stack)-1]
			}
		}
	}
	rel, _ := filepath.Rel(m.Repo, file)
	switch {
	case bad != "":
		s.Violation(rule, key, rel, "the built-in error page shows failure details with debug mode off: %s", bad)
	case nExpr == 0:
		s.Undecided(rule, key, rel, "the page mentions none of message/path/line: with debug mode on the body must contain them")
	default:
		s.OK(rule, key, rel, "%d expressions mention message/path/line, all inside the true branch of @if(debugMode)", nExpr)
	}
}
