package main

// rule_slotidx.go — R-SLOTIDX (C07): a body passed for a slot goes to the placeholder of that name, wherever in the
// component file the placeholder stands. The function of package ast that looks a placeholder up — found by what it is:
// it takes a statement list and a name and yields a position — is evaluated on the list
// [@slot("head"), text, @slot (default), @slot("foot")]: "head" is at 0, the default slot at 2, "foot" at 3, and
// "none" (and any name in an empty list) is not found, which the result says with a negative number. A lookup table
// read with `idx > 0` loses the placeholder that is the first statement of the file.

import (
	"fmt"
	"go/constant"
	"go/types"

	"golang.org/x/tools/go/ssa"
)

func (m *Model) RunSlotIndex(s *Sink, rule string) {
	defer m.runDuplicateSlotCases(s, rule)
	stmtT := m.namedType("ast", "Statement")
	slotT, htmlT, litT := m.namedType("ast", "SlotStmt"), m.namedType("ast", "HTMLStmt"), m.namedType("ast", "StringLiteral")
	if stmtT == nil || slotT == nil || htmlT == nil || litT == nil {
		s.Undecided(rule, "ast", "-", "ast.Statement / SlotStmt / HTMLStmt / StringLiteral not found")
		return
	}
	fieldIdx := func(t *types.Named, name string) int {
		st := t.Underlying().(*types.Struct)
		for i := 0; i < st.NumFields(); i++ {
			if canonFieldName(t, i, st.Field(i).Name()) == name {
				return i
			}
		}
		return -1
	}
	fName, fVal := fieldIdx(slotT, "Name"), fieldIdx(litT, "Value")
	if fName < 0 || fVal < 0 {
		s.Undecided(rule, "ast.SlotStmt", "-", "SlotStmt.Name / StringLiteral.Value not found")
		return
	}
	var finders []*ssa.Function
	for _, fn := range m.ModFns {
		if fn.Blocks == nil || shortPkg(fnPkgPath(fn)) != "ast" || fn.Signature.Recv() != nil || len(fn.Params) != 2 || fn.Signature.Results().Len() != 1 {
			continue
		}
		sl, isSl := fn.Params[0].Type().Underlying().(*types.Slice)
		if !isSl || !types.Identical(sl.Elem(), stmtT) || !isStringT(fn.Params[1].Type()) || !isInteger(fn.Signature.Results().At(0).Type()) {
			continue
		}
		finders = append(finders, fn)
	}
	if len(finders) == 0 {
		s.Undecided(rule, "placeholder lookup", "-", "no function of package ast takes a statement list and a name and yields a position (findSlotStmtIndex was the confirmed instance)")
		return
	}
	slot := func(name string) *iStruct {
		return &iStruct{typ: slotT, fields: map[int]any{fName: &iStruct{typ: litT, fields: map[int]any{fVal: constant.MakeString(name)}}}}
	}
	list := []any{slot("head"), &iStruct{typ: htmlT, fields: map[int]any{}}, slot(""), slot("foot")}
	type tc struct {
		elems []any
		name  string
		want  int64 // -1: any negative number
	}
	cases := []tc{{list, "head", 0}, {list, "", 2}, {list, "foot", 3}, {list, "none", -1}, {nil, "head", -1}, {nil, "", -1}, {list[1:2], "", -1}}
	for _, fn := range finders {
		key := fnKey(fn) + "|a placeholder is found by its name at any position"
		bad, undecided := "", ""
		for _, c := range cases {
			ip := &Interp{m: m, useGlobals: true}
			res, ok := ip.Run(fn, []any{iSlice{&iArr{elems: append([]any{}, c.elems...)}, 0, len(c.elems)}, constant.MakeString(c.name)})
			k, isK := res.(constant.Value)
			if !ok || !isK || ip.stuck != "" || len(ip.lost) > 0 {
				undecided = fmt.Sprintf("looking up %q among %d statements: %s", c.name, len(c.elems), ip.stuck)
				break
			}
			got, _ := constant.Int64Val(constant.ToInt(k))
			if (c.want >= 0 && got != c.want) || (c.want < 0 && got >= 0) {
				want := fmt.Sprint(c.want)
				if c.want < 0 {
					want = "a negative number (not found)"
				}
				bad = fmt.Sprintf("in the list [@slot(\"head\"), text, @slot, @slot(\"foot\")][:%d] the placeholder %q is reported at %d, expected %s", len(c.elems), c.name, got, want)
				break
			}
		}
		switch {
		case undecided != "":
			s.Undecided(rule, key, m.Pos(fn.Pos()), "%s could not be evaluated (%s)", fnKey(fn), undecided)
		case bad != "":
			s.Violation(rule, key, m.Pos(fn.Pos()), "%s: %s — the body passed for that slot is refused as \"not defined in the component\" or goes to another placeholder", fnKey(fn), bad)
		default:
			s.OK(rule, key, m.Pos(fn.Pos()), "case evaluation on a list of four statements and on empty lists: named and default placeholders are found at their positions (the first one included), other names are not found")
		}
	}
}

// runDuplicateSlotCases: "a slot passed twice is reported": the function of package ast that takes the slots of a use
// and yields a name and a count is evaluated on lists with a repeated name — adjacent, with another slot in between,
// the default slot, three times — and on lists without one.
func (m *Model) runDuplicateSlotCases(s *Sink, rule string) {
	slotT, litT := m.namedType("ast", "SlotStmt"), m.namedType("ast", "StringLiteral")
	if slotT == nil || litT == nil {
		return
	}
	fieldIdx := func(t *types.Named, name string) int {
		st := t.Underlying().(*types.Struct)
		for i := 0; i < st.NumFields(); i++ {
			if canonFieldName(t, i, st.Field(i).Name()) == name {
				return i
			}
		}
		return -1
	}
	fName, fVal := fieldIdx(slotT, "Name"), fieldIdx(litT, "Value")
	if fName < 0 || fVal < 0 {
		return
	}
	var finders []*ssa.Function
	for _, fn := range m.ModFns {
		if fn.Blocks == nil || shortPkg(fnPkgPath(fn)) != "ast" || fn.Signature.Recv() != nil || len(fn.Params) != 1 || fn.Signature.Results().Len() != 2 {
			continue
		}
		sl, isSl := fn.Params[0].Type().Underlying().(*types.Slice)
		if !isSl {
			continue
		}
		if pn := ptrNamed(sl.Elem()); pn == nil || pn != slotT {
			continue
		}
		r := fn.Signature.Results()
		if isStringT(r.At(0).Type()) && isInteger(r.At(1).Type()) {
			finders = append(finders, fn)
		}
	}
	if len(finders) == 0 {
		s.Undecided(rule, "duplicate slots", "-", "no function of package ast takes the slots of a use and yields a name and a count (findDuplicateSlot was the confirmed instance)")
		return
	}
	type tc struct {
		names []string
		dup   string
		times int64 // 0: no duplicate
	}
	cases := []tc{{[]string{"a", "a"}, "a", 2}, {[]string{"a", "b", "a"}, "a", 2}, {[]string{"a", "a", "b"}, "a", 2}, {[]string{"x", "b", "b", "b"}, "b", 3},
		{[]string{"", "x", ""}, "", 2}, {[]string{"a", "b"}, "", 0}, {[]string{"a"}, "", 0}, {nil, "", 0}, {[]string{"a", "b", "c", "b"}, "b", 2}}
	for _, fn := range finders {
		key := fnKey(fn) + "|a slot passed twice is found wherever it stands"
		bad, undecided := "", ""
		for _, c := range cases {
			var elems []any
			for _, n := range c.names {
				elems = append(elems, &iStruct{typ: slotT, fields: map[int]any{fName: &iStruct{typ: litT, fields: map[int]any{fVal: constant.MakeString(n)}}}})
			}
			ip := &Interp{m: m, useGlobals: true}
			res, ok := ip.Run(fn, []any{iSlice{&iArr{elems: elems}, 0, len(elems)}})
			tup, isT := res.(iTuple)
			if !ok || !isT || len(tup) != 2 || ip.stuck != "" || len(ip.lost) > 0 {
				undecided = fmt.Sprintf("on the slots %q: %s", c.names, ip.stuck)
				break
			}
			nameV, okN := tup[0].(constant.Value)
			cntV, okC := tup[1].(constant.Value)
			if !okN || !okC {
				undecided = fmt.Sprintf("on the slots %q: the result is not known", c.names)
				break
			}
			cnt, _ := constant.Int64Val(constant.ToInt(cntV))
			if c.times == 0 {
				if cnt > 1 {
					bad = fmt.Sprintf("for the slots %q a duplicate is reported (%d times) although no name is repeated", c.names, cnt)
				}
				continue
			}
			if cnt != c.times || constant.StringVal(nameV) != c.dup {
				bad = fmt.Sprintf("for the slots %q the answer is (%q, %d), expected (%q, %d): a slot passed twice with another one in between is not reported when the templates are loaded — the later body silently replaces the earlier one", c.names, constant.StringVal(nameV), cnt, c.dup, c.times)
			}
			if bad != "" {
				break
			}
		}
		switch {
		case undecided != "":
			s.Undecided(rule, key, m.Pos(fn.Pos()), "%s could not be evaluated (%s)", fnKey(fn), undecided)
		case bad != "":
			s.Violation(rule, key, m.Pos(fn.Pos()), "%s: %s", fnKey(fn), bad)
		default:
			s.OK(rule, key, m.Pos(fn.Pos()), "case evaluation on nine lists of slots: a repeated name — adjacent or not, named or default, twice or three times — is found with its count; lists without one yield none")
		}
	}
}
