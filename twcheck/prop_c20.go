package main

func init() {
	register(&PropInfo{
		ID:    "C20",
		Title: "Custom functions: unique registration, faithful argument/result conversion",
		Rules: []string{
			"R-EVALERR: every result of Eval is returned or error-tested before use",
			"R-REGISTRY (current registry): the evaluation context of a render is built in the call, from the package's registry as it is then",
			"R-DOTKW: the parse function registered for the dot, by cases on the abstract parser: an identifier and every keyword token is a name after the dot; a non-name is an error",
			"R-OPTABLE (singletons): no object is compared by identity with the TRUE / FALSE / NIL singletons",
			"R-REGISTRY (context): every construction of an evaluation context stores its CustomFunc and Config before it escapes",
			"R-REGISTRY: each Register*Func stores into its table only on the miss edge of a lookup of the same map and key and returns a non-nil error on the hit edge; no other code writes, replaces or clears a table; evalCallExp consults custom functions only after the builtin lookup missed; hasCustomFunc and evalCallExp use the table of the receiver's kind for all five kinds; arguments go through Val(), results through NativeToObject; the fall-through error names function and type",
			"R-VAL: Val() of Int/Float/Str/Bool returns the payload; Array/Obj convert every element recursively",
			"R-NILOBJ: the converted result of a custom function is nil-checked",
		},
		Decided:     "TODO",
		NotDecided:  "TODO",
		Assumptions: trustedBase,
		Run: func(m *Model, s *Sink) {
			m.RunEvalErr(s, "R-EVALERR")       // a failing argument fails the call: the function never sees an error as a value
			m.RunFreshContext(s, "R-REGISTRY") // a function registered after a first rendering is callable in the next one
			m.RunDotKeywords(s, "R-DOTKW")     // a custom function registered under a keyword name can be called
			m.RunSingletons(s, "R-OPTABLE")    // a boolean receiver is converted by its value, not by identity with TRUE
			m.RunCtxComplete(s, "R-REGISTRY")  // every evaluation context carries the registry
			m.RunRegistry(s, "R-REGISTRY")
			m.RunHasCustomCases(s, "R-REGISTRY")
			m.RunValSiblings(s, "R-VAL")
			ec := m.Method("evaluator", "Evaluator", "evalCallExp")
			if ec != nil {
				m.RunNilObj(s, "R-NILOBJ", append(m.reachableFns(m.Roots().Render)[:0:0], ec))
			}
			s.RequireMin("R-REGISTRY", 20, "5 registrars x 2-3 obligations, who-may-write, dispatch clauses, 10 kind/table rows")
		},
	})
}
