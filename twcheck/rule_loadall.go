package main

// rule_loadall.go — R-LOADALL (C06, C07, C18): every file of the template directory is loaded the same way. In the
// loader's loop over the files (the function of the root package that registers parsed programs in the table it
// returns):
//   - a program is registered only after both linkers have run on it — the function that applies the layout
//     (it calls ast.Program.ApplyLayout) and the one that resolves the components (it calls ApplyComponent) —, on
//     every path, directly or through a helper that always calls them: a page that uses a layout AND components has
//     both resolved;
//   - a pass of the loop that neither fails nor registers its program is a pass over a layout (under
//     HasReserveStmt()): no other file is skipped ("already parsed as the layout of a page", …).

import (
	"go/token"

	"golang.org/x/tools/go/ssa"
)

func (m *Model) RunLoadAll(s *Sink, rule string) {
	progT := m.namedType("ast", "Program")
	var rootFns []*ssa.Function
	for _, fn := range m.ModFns {
		if fn.Blocks != nil && shortPkg(fnPkgPath(fn)) == "textwire" {
			rootFns = append(rootFns, fn)
		}
	}
	// the loader: registers *ast.Program values in a map inside a loop
	type regSite struct {
		fn *ssa.Function
		mu *ssa.MapUpdate
		li *loopInfo
	}
	var sites []regSite
	for _, fn := range rootFns {
		for _, li := range naturalLoops(fn) {
			for b := range li.body {
				for _, in := range b.Instrs {
					mu, ok := in.(*ssa.MapUpdate)
					if !ok || progT == nil {
						continue
					}
					if pn := ptrNamed(mu.Value.Type()); pn != nil && pn == progT {
						sites = append(sites, regSite{fn, mu, li})
					}
				}
			}
		}
	}
	if len(sites) == 0 {
		s.Undecided(rule, "loader", "-", "no loop of the root package registers parsed programs in a table (parsePrograms was the confirmed instance)")
		return
	}
	callsMethod := func(fn *ssa.Function, name string) bool {
		for _, b := range fn.Blocks {
			for _, in := range b.Instrs {
				if c, ok := in.(ssa.CallInstruction); ok {
					if sc := c.Common().StaticCallee(); sc != nil && shortPkg(fnPkgPath(sc)) == "ast" && sc.Name() == name {
						return true
					}
				}
			}
		}
		return false
	}
	linkers := map[string]*ssa.Function{}
	for _, fn := range rootFns {
		if callsMethod(fn, "ApplyLayout") {
			linkers["the layout"] = fn
		}
		if callsMethod(fn, "ApplyComponent") {
			linkers["the components"] = fn
		}
	}
	for _, st := range sites {
		for _, what := range []string{"the layout", "the components"} {
			lk := linkers[what]
			key := fnKey(st.fn) + "|a program is registered after " + what + " were linked"
			if lk == nil {
				s.Undecided(rule, key, m.InstrPos(st.mu), "the function of the root package that links %s was not found", what)
				continue
			}
			ci := m.newPassInfo(func(c ssa.CallInstruction) bool { return c.Common().StaticCallee() == lk }, func(*ssa.Call) bool { return false }, rootFns, nil, "erraware")
			target := st.mu.Block()
			idx := 0
			for i, in := range target.Instrs {
				if in == ssa.Instruction(st.mu) {
					idx = i
				}
			}
			if ci.pathAvoiding(st.fn, st.li.header, 0, func(x *ssa.BasicBlock) bool { return x == target && !ci.blockConsumesBefore(x, idx) }, st.li.body) {
				s.Violation(rule, key, m.InstrPos(st.mu), "%s can register a program without %s having been called for it in that pass of the loop (directly or through a helper that always calls it): a page that uses a layout and components gets only one of the two — its components keep no program (\"the component must have a block\" at render time), a missing component file or an undeclared slot is not reported at load", fnKey(st.fn), canonFnName(lk))
			} else {
				s.OK(rule, key, m.InstrPos(st.mu), "every path of a pass from the head of the loop to the registration calls %s", canonFnName(lk))
			}
		}
		// no file is skipped
		key := fnKey(st.fn) + "|every file that is not a layout is registered or fails the load"
		isReg := map[*ssa.BasicBlock]bool{st.mu.Block(): true}
		seen := map[*ssa.BasicBlock]bool{}
		skipAt := ""
		var walk func(b *ssa.BasicBlock)
		walk = func(b *ssa.BasicBlock) {
			if seen[b] || skipAt != "" || isReg[b] || !st.li.body[b] {
				return
			}
			seen[b] = true
			for _, nx := range b.Succs {
				// the edge taken when the program declares reserves: a layout is not registered
				layoutEdge := false
				for _, f := range expandFacts(edgeFact(b, nx)) {
					cond, holds := f.Cond, f.Holds
					for {
						u, isU := cond.(*ssa.UnOp)
						if !isU || u.Op != token.NOT {
							break
						}
						cond, holds = u.X, !holds
					}
					if c, isC := cond.(*ssa.Call); isC && holds && c.Call.StaticCallee() != nil && canonFnName(c.Call.StaticCallee()) == "HasReserveStmt" {
						layoutEdge = true
					}
				}
				if layoutEdge {
					continue
				}
				if nx == st.li.header {
					skipAt = m.InstrPos(b.Instrs[len(b.Instrs)-1])
					return
				}
				walk(nx)
			}
		}
		for _, nx := range st.li.header.Succs {
			if st.li.body[nx] {
				walk(nx)
			}
		}
		if isReg[st.li.header] {
			skipAt = ""
		}
		if skipAt != "" {
			s.Violation(rule, key, skipAt, "%s can go on to the next file (at %s) without having registered the current one, without an error and not because it declares reserves: a file of the template directory is silently left out (\"template not found\" later), and what loading it would have reported is not reported", fnKey(st.fn), skipAt)
		} else {
			s.OK(rule, key, m.InstrPos(st.mu), "a pass ends by registering the program, by returning, or over the HasReserveStmt() edge")
		}
	}
}
