package main

// rule_loadall.go — R-LOADALL (C06, C07, C18): every file of the template directory is loaded the same way. In the
// loader's loop over the files (the function of the root package that registers parsed programs in the table it
// returns):
//   - a program is registered only after both linkers have run on it — the function that applies the layout
//     (it calls ast.Program.ApplyLayout) and the one that resolves the components (it calls ApplyComponent) —, on
//     every path, directly or through a helper that always calls them: a page that uses a layout AND components has
//     both resolved;
//   - a pass of the loop that neither fails nor registers its program is a pass over a layout (under
//     HasReserveStmt()): no other file is skipped ("already parsed as the layout of a page", …).

import (
	"fmt"
	"go/token"
	"go/types"
	"os"
	"sort"
	"strings"

	"golang.org/x/tools/go/ssa"
)

func (m *Model) RunLoadAll(s *Sink, rule string) {
	progT := m.namedType("ast", "Program")
	var rootFns []*ssa.Function
	for _, fn := range m.ModFns {
		if fn.Blocks != nil && shortPkg(fnPkgPath(fn)) == "textwire" {
			rootFns = append(rootFns, fn)
		}
	}
	// the loader: registers *ast.Program values in a map inside a loop
	type regSite struct {
		fn *ssa.Function
		mu ssa.Instruction // the map update, or the call of the helper that makes it for its parameter
		li *loopInfo
	}
	var sites []regSite
	// a helper that stores its own parameter (`func (l *loader) register(name, prog)`) registers nothing of its own:
	// the registrations are its call sites
	regHelper := map[*ssa.Function]bool{}
	for _, fn := range rootFns {
		for _, b := range fn.Blocks {
			for _, in := range b.Instrs {
				if mu, ok := in.(*ssa.MapUpdate); ok && progT != nil {
					if pn := ptrNamed(mu.Value.Type()); pn != nil && pn == progT {
						if _, isP := mu.Value.(*ssa.Parameter); isP {
							regHelper[fn] = true
						}
					}
				}
			}
		}
	}
	for _, fn := range rootFns {
		loops := naturalLoops(fn)
		for _, b := range fn.Blocks {
			for _, in := range b.Instrs {
				var mu ssa.Instruction
				switch x := in.(type) {
				case *ssa.MapUpdate:
					if pn := ptrNamed(x.Value.Type()); progT == nil || pn == nil || pn != progT || regHelper[fn] {
						continue
					}
					mu = x
				case *ssa.Call:
					if sc := x.Call.StaticCallee(); sc == nil || !regHelper[sc] {
						continue
					}
					mu = x
				default:
					continue
				}
				// in the loop over the files, or in a function that loads one file (the whole function is a pass then)
				var in *loopInfo
				for _, li := range loops {
					if li.body[b] {
						in = li
					}
				}
				if in == nil {
					body := map[*ssa.BasicBlock]bool{}
					for _, fb := range fn.Blocks {
						body[fb] = true
					}
					in = &loopInfo{fn: fn, header: fn.Blocks[0], body: body}
				}
				sites = append(sites, regSite{fn, mu, in})
			}
		}
	}
	if len(sites) == 0 {
		s.Undecided(rule, "loader", "-", "no function of the root package registers parsed programs in a table (parsePrograms was the confirmed instance)")
		return
	}
	callsMethod := func(fn *ssa.Function, name string) bool {
		for _, b := range fn.Blocks {
			for _, in := range b.Instrs {
				if c, ok := in.(ssa.CallInstruction); ok {
					if sc := c.Common().StaticCallee(); sc != nil && shortPkg(fnPkgPath(sc)) == "ast" && sc.Name() == name {
						return true
					}
				}
			}
		}
		return false
	}
	// the linkers: for the layout, whatever calls ast.Program.ApplyLayout directly (a function of the root package, or a
	// method of ast.Program that wraps it); for the components, the function that goes over the uses of a program (it
	// reads Program.Components) — the per-use helper it may call in that loop is not the linker: a page without
	// components never reaches it
	var modFns []*ssa.Function
	for _, fn := range m.ModFns {
		if sp := shortPkg(fnPkgPath(fn)); fn.Blocks != nil && (sp == "textwire" || sp == "ast") {
			modFns = append(modFns, fn)
		}
	}
	linkers := map[string]map[*ssa.Function]bool{"the layout": {}, "the components": {}}
	for _, fn := range modFns {
		if callsMethod(fn, "ApplyLayout") {
			linkers["the layout"][fn] = true
		}
		if shortPkg(fnPkgPath(fn)) == "textwire" {
			for _, b := range fn.Blocks {
				for _, in := range b.Instrs {
					if fa, ok := in.(*ssa.FieldAddr); ok && progT != nil {
						if nt, i, okA := fieldAccess(fa); okA && nt == progT && canonFieldName(progT, i, progT.Underlying().(*types.Struct).Field(i).Name()) == "Components" {
							// it goes over the uses (an element is taken), it does not merely ask how many there are
							for _, r := range *fa.Referrers() {
								ld, isLd := r.(*ssa.UnOp)
								if !isLd || ld.Referrers() == nil {
									continue
								}
								for _, u := range *ld.Referrers() {
									switch u.(type) {
									case *ssa.IndexAddr, *ssa.Index, *ssa.Range:
										linkers["the components"][fn] = true
									}
								}
							}
						}
					}
				}
			}
		}
	}
	if len(linkers["the components"]) == 0 {
		for _, fn := range modFns {
			if callsMethod(fn, "ApplyComponent") {
				linkers["the components"][fn] = true
			}
		}
	}
	for _, st := range sites {
		for _, what := range []string{"the layout", "the components"} {
			lks := linkers[what]
			key := fnKey(st.fn) + "|a program is registered after " + what + " were linked"
			if len(lks) == 0 {
				s.Undecided(rule, key, m.InstrPos(st.mu), "the function that links %s was not found", what)
				continue
			}
			var lkNames []string
			for f := range lks {
				lkNames = append(lkNames, canonFnName(f))
			}
			sort.Strings(lkNames)
			lkName := strings.Join(lkNames, " / ")
			// "nothing to link" is as good as linked: the edge on which the program has no use statement
			var edgePoint func(pred, succ *ssa.BasicBlock) bool
			if what == "the layout" {
				edgePoint = func(pred, succ *ssa.BasicBlock) bool {
					for _, f := range expandFacts(edgeFact(pred, succ)) {
						if c, isC := f.Cond.(*ssa.Call); isC && !f.Holds && c.Call.StaticCallee() != nil && canonFnName(c.Call.StaticCallee()) == "HasUseStmt" {
							return true
						}
						if bo, isBo := f.Cond.(*ssa.BinOp); isBo && (bo.Op == token.EQL || bo.Op == token.NEQ) && (bo.Op == token.EQL) == f.Holds {
							for _, pr := range [][2]ssa.Value{{bo.X, bo.Y}, {bo.Y, bo.X}} {
								if isNilConst(pr[1]) && strings.HasSuffix(fieldPathOf(pr[0]), ".UseStmt") {
									return true
								}
							}
						}
					}
					return false
				}
			}
			ci := m.newPassInfoOpts(func(c ssa.CallInstruction) bool { sc := c.Common().StaticCallee(); return sc != nil && lks[sc] }, func(*ssa.Call) bool { return false }, modFns, edgePoint)
			if os.Getenv("TWDEBUG") != "" {
				for _, f := range modFns {
					if ci.may[f] || ci.always[f] || ci.onOK[f] {
						fmt.Fprintf(os.Stderr, "loadall %s: %s may=%v always=%v onOK=%v\n", what, fnKey(f), ci.may[f], ci.always[f], ci.onOK[f])
					}
				}
			}
			target := st.mu.Block()
			idx := 0
			for i, in := range target.Instrs {
				if in == st.mu {
					idx = i
				}
			}
			if ci.pathAvoiding(st.fn, st.li.header, 0, func(x *ssa.BasicBlock) bool { return x == target && !ci.blockConsumesBefore(x, idx) }, st.li.body) {
				s.Violation(rule, key, m.InstrPos(st.mu), "%s can register a program without %s having been called for it in that pass of the loop (directly or through a helper that always calls it): a page that uses a layout and components gets only one of the two — its components keep no program (\"the component must have a block\" at render time), a missing component file or an undeclared slot is not reported at load", fnKey(st.fn), lkName)
			} else {
				s.OK(rule, key, m.InstrPos(st.mu), "every path of a pass from the head of the loop to the registration calls %s", lkName)
			}
		}
		// no file is skipped
		key := fnKey(st.fn) + "|every file that is not a layout is registered or fails the load"
		isReg := map[*ssa.BasicBlock]bool{st.mu.Block(): true}
		seen := map[*ssa.BasicBlock]bool{}
		skipAt := ""
		var walk func(b *ssa.BasicBlock)
		walk = func(b *ssa.BasicBlock) {
			if seen[b] || skipAt != "" || isReg[b] || !st.li.body[b] {
				return
			}
			seen[b] = true
			for _, nx := range b.Succs {
				// the edge taken when the program declares reserves: a layout is not registered
				layoutEdge := false
				for _, f := range expandFacts(edgeFact(b, nx)) {
					cond, holds := f.Cond, f.Holds
					for {
						u, isU := cond.(*ssa.UnOp)
						if !isU || u.Op != token.NOT {
							break
						}
						cond, holds = u.X, !holds
					}
					if c, isC := cond.(*ssa.Call); isC && holds && c.Call.StaticCallee() != nil && canonFnName(c.Call.StaticCallee()) == "HasReserveStmt" {
						layoutEdge = true
					}
				}
				if layoutEdge {
					continue
				}
				if nx == st.li.header && nx != st.fn.Blocks[0] {
					skipAt = m.InstrPos(b.Instrs[len(b.Instrs)-1])
					return
				}
				walk(nx)
			}
			// a function that loads one file: the pass ends with its successful return
			if st.li.header == st.fn.Blocks[0] {
				if ret, isRet := b.Instrs[len(b.Instrs)-1].(*ssa.Return); isRet {
					okRet := true
					for i, r := range ret.Results {
						if errorLike(st.fn.Signature.Results().At(i).Type()) && !isNilConst(r) {
							okRet = false // fails the load
						}
					}
					if okRet {
						skipAt = m.InstrPos(ret)
					}
				}
			}
		}
		if st.li.header == st.fn.Blocks[0] {
			walk(st.li.header)
		} else {
			for _, nx := range st.li.header.Succs {
				if st.li.body[nx] {
					walk(nx)
				}
			}
		}
		if isReg[st.li.header] {
			skipAt = ""
		}
		if skipAt != "" {
			s.Violation(rule, key, skipAt, "%s can go on to the next file (at %s) without having registered the current one, without an error and not because it declares reserves: a file of the template directory is silently left out (\"template not found\" later), and what loading it would have reported is not reported", fnKey(st.fn), skipAt)
		} else {
			s.OK(rule, key, m.InstrPos(st.mu), "a pass ends by registering the program, by returning, or over the HasReserveStmt() edge")
		}
	}
}
