package main

// core_facts.go — dominating branch facts, access paths, and a small linear
// integer entailment engine used by R-BOUNDS, R-DIVGUARD, R-ASSERT, R-NILFIELD.

import (
	"fmt"
	"go/constant"
	"go/token"
	"go/types"
	"os"
	"sort"
	"strings"

	"golang.org/x/tools/go/ssa"
)

// Fact: condition value Cond is known to be Holds.
type Fact struct {
	Cond  ssa.Value
	Holds bool
}

// factsAt returns the branch conditions known on entry to block b: for every
// block d on b's dominator chain that has a single predecessor ending in an
// If, the condition with the polarity of the edge taken.
func factsAt(b *ssa.BasicBlock) []Fact {
	var out []Fact
	for d := b; d != nil; d = d.Idom() {
		if len(d.Preds) != 1 {
			continue
		}
		out = append(out, edgeFact(d.Preds[0], d)...)
	}
	return out
}

// edgeFact: the condition established by taking edge pred->succ.
func edgeFact(pred, succ *ssa.BasicBlock) []Fact {
	if len(pred.Instrs) == 0 {
		return nil
	}
	iff, ok := pred.Instrs[len(pred.Instrs)-1].(*ssa.If)
	if !ok || len(pred.Succs) != 2 || pred.Succs[0] == pred.Succs[1] {
		return nil
	}
	if pred.Succs[0] == succ {
		return []Fact{{iff.Cond, true}}
	}
	if pred.Succs[1] == succ {
		return []Fact{{iff.Cond, false}}
	}
	return nil
}

// factsOnEdge: facts at the end of pred plus the edge condition into succ.
func factsOnEdge(pred, succ *ssa.BasicBlock) []Fact {
	return append(edgeFact(pred, succ), factsAt(pred)...)
}

// expandFacts decomposes !x and short-circuit phis into atomic facts. In SSA
// `if a && b` is control flow, but a && b used as a value (e.g. the case
// expression of a tag-less switch) is a phi [false, ..., last-operand]:
// the phi being true means control came through the last operand's block,
// so that operand and every fact on that edge hold.
func expandFacts(fs []Fact) []Fact {
	var out []Fact
	seen := map[Fact]bool{}
	var add func(f Fact, d int)
	add = func(f Fact, d int) {
		for {
			u, ok := f.Cond.(*ssa.UnOp)
			if ok && u.Op == token.NOT {
				f = Fact{u.X, !f.Holds}
				continue
			}
			// `x == true`, `true != x` (a `switch true { case x: }` is the former)
			if bo, isBo := f.Cond.(*ssa.BinOp); isBo && (bo.Op == token.EQL || bo.Op == token.NEQ) && isBoolT(bo.X.Type()) {
				var k *ssa.Const
				var other ssa.Value
				if c, isC := bo.X.(*ssa.Const); isC && c.Value != nil {
					k, other = c, bo.Y
				} else if c, isC := bo.Y.(*ssa.Const); isC && c.Value != nil {
					k, other = c, bo.X
				}
				if k != nil && k.Value.Kind() == constant.Bool {
					holds := f.Holds
					if bo.Op == token.NEQ {
						holds = !holds
					}
					if !constant.BoolVal(k.Value) {
						holds = !holds
					}
					f = Fact{other, holds}
					continue
				}
			}
			break
		}
		if seen[f] {
			return
		}
		seen[f] = true
		out = append(out, f)
		phi, ok := f.Cond.(*ssa.Phi)
		if !ok || d > 4 || len(phi.Edges) < 2 {
			return
		}
		varEdge := -1
		for i, e := range phi.Edges {
			c, isC := e.(*ssa.Const)
			if isC && c.Value != nil && c.Value.Kind() == constant.Bool {
				if constant.BoolVal(c.Value) == f.Holds {
					return // the phi's value does not pin down the path
				}
				continue
			}
			if varEdge >= 0 {
				return
			}
			varEdge = i
		}
		if varEdge < 0 {
			return
		}
		add(Fact{phi.Edges[varEdge], f.Holds}, d+1)
		for _, g := range factsOnEdge(phi.Block().Preds[varEdge], phi.Block()) {
			add(g, d+1)
		}
	}
	for _, f := range fs {
		add(f, 0)
	}
	return out
}

// ---------------------------------------------------------------------------
// Access paths: canonical names for repeated loads of the same field chain.

// pathOf returns a canonical string for values that are (chains of) field
// loads from one root value: "node.2.1". ok=false if v is not such a chain.
func pathOf(v ssa.Value) (root ssa.Value, path string, ok bool) {
	switch x := v.(type) {
	case *ssa.UnOp:
		if x.Op != token.MUL {
			return v, "", false
		}
		switch a := x.X.(type) {
		case *ssa.FieldAddr:
			r, p := addrPath(a)
			return r, p, true
		case *ssa.Global:
			return a, "", true
		case *ssa.Alloc, *ssa.FreeVar:
			// a variable that lives in a cell because closures capture it, written exactly once: its loads are that value
			if cv, ok := cellValue(x); ok {
				if r, p, isPath := pathOf(cv); isPath {
					return r, p, true
				}
				return cv, "", false
			}
		}
	case *ssa.Field:
		r, p, _ := pathOf(x.X)
		return r, p + "." + fieldName(x.X.Type(), x.Field), true
	case *ssa.FieldAddr:
		// address used as a value (e.g. pointer receiver of a nested struct)
		r, p := addrPath(x)
		return r, p + "&", true
	case *ssa.Call:
		// a getter method `func (x *T) F() U { return x.f }` reads the field
		if f, ok := getterField(x); ok {
			r, p, _ := pathOf(x.Call.Args[0])
			return r, p + "." + fieldName(x.Call.Args[0].Type(), f), true
		}
	}
	return v, "", false
}

// getterField: the call is to a single-block method that returns a field of its receiver.
func getterField(c *ssa.Call) (int, bool) {
	sc := c.Call.StaticCallee()
	if sc == nil || sc.Signature.Recv() == nil || len(sc.Blocks) != 1 || len(sc.Params) != 1 || len(c.Call.Args) != 1 {
		return 0, false
	}
	ins := sc.Blocks[0].Instrs
	ret, ok := ins[len(ins)-1].(*ssa.Return)
	if !ok || len(ret.Results) != 1 {
		return 0, false
	}
	rv := ret.Results[0]
	if ct, isCT := rv.(*ssa.ChangeType); isCT { // the field has a named type of the same shape (type errorList []*fail.Error)
		rv = ct.X
	}
	ld, ok := rv.(*ssa.UnOp)
	if !ok || ld.Op != token.MUL {
		return 0, false
	}
	fa, ok := ld.X.(*ssa.FieldAddr)
	if !ok || fa.X != ssa.Value(sc.Params[0]) {
		return 0, false
	}
	for _, in := range ins {
		switch in.(type) {
		case *ssa.FieldAddr, *ssa.UnOp, *ssa.Return, *ssa.DebugRef, *ssa.ChangeType:
		default:
			return 0, false
		}
	}
	return fa.Field, true
}

// addrPath: the access path denoted by a field address; nested struct fields
// (&p.curToken then &_.Type) chain without an intervening load.
func addrPath(fa *ssa.FieldAddr) (ssa.Value, string) {
	name := "." + fieldName(fa.X.Type(), fa.Field)
	if inner, ok := fa.X.(*ssa.FieldAddr); ok {
		r, p := addrPath(inner)
		return r, p + name
	}
	r, p, _ := pathOf(fa.X)
	return r, p + name
}

func fieldName(t types.Type, i int) string {
	if p, ok := t.Underlying().(*types.Pointer); ok {
		t = p.Elem()
	}
	if s, ok := t.Underlying().(*types.Struct); ok && i < s.NumFields() {
		return canonFieldName(t, i, s.Field(i).Name())
	}
	return fmt.Sprint(i)
}

// canonKey gives a key such that two SSA values with equal keys denote the
// same runtime value provided no write to the path happens in between (the
// callers check "no intervening write" with mayWriteBetween where it matters).
func (a *Arith) canonKey(v ssa.Value) string {
	r, p, ok := pathOf(v)
	if ok {
		return valKey(r) + p + a.ctx.version(v, r, p)
	}
	return valKey(v)
}

func valKey(v ssa.Value) string {
	switch x := v.(type) {
	case *ssa.Global:
		return "global:" + x.Pkg.Pkg.Path() + "." + x.Name()
	case *ssa.Const:
		return "const:" + x.String()
	case *ssa.Parameter:
		return "param:" + x.Name()
	case *ssa.FreeVar:
		return "free:" + x.Name()
	}
	return fmt.Sprintf("%s@%p", v.Name(), v)
}

// ---------------------------------------------------------------------------
// Linear forms over integer atoms

type Lin struct {
	T map[string]int64 // atom key -> coefficient
	C int64
}

func linConst(c int64) Lin { return Lin{T: map[string]int64{}, C: c} }
func linAtom(k string) Lin { return Lin{T: map[string]int64{k: 1}} }

func (a Lin) add(b Lin, sign int64) Lin {
	r := Lin{T: map[string]int64{}, C: a.C + sign*b.C}
	for k, v := range a.T {
		r.T[k] = v
	}
	for k, v := range b.T {
		r.T[k] += sign * v
		if r.T[k] == 0 {
			delete(r.T, k)
		}
	}
	return r
}

func (a Lin) scale(c int64) Lin {
	r := Lin{T: map[string]int64{}, C: a.C * c}
	for k, v := range a.T {
		if v*c != 0 {
			r.T[k] = v * c
		}
	}
	return r
}

func (a Lin) String() string {
	var ks []string
	for k := range a.T {
		ks = append(ks, k)
	}
	sort.Strings(ks)
	var sb strings.Builder
	for _, k := range ks {
		fmt.Fprintf(&sb, "%+d*%s ", a.T[k], k)
	}
	fmt.Fprintf(&sb, "%+d", a.C)
	return sb.String()
}

// Ineq: Form <= K
type Ineq struct {
	Form Lin
	K    int64
}

// Arith is the per-function integer reasoning context.
type Arith struct {
	m          *Model
	fn         *ssa.Function
	ctx        *FnCtx
	atoms      map[string]ssa.Value // atom key -> defining value (for axioms)
	lenOf      map[string]ssa.Value // "len:<key>" -> the container value
	curIneqs   []Ineq               // inequalities of the proof in progress (for conditional axioms)
	axiomDepth int
	extraIneqs []Ineq // case constraints of an enclosing min/max split
	curFacts   []Fact
	nonneg     map[string]bool
	is32bit    bool
}

func (m *Model) NewArith(fn *ssa.Function) *Arith {
	return &Arith{m: m, fn: fn, ctx: m.Ctx(fn), atoms: map[string]ssa.Value{}, lenOf: map[string]ssa.Value{}, nonneg: map[string]bool{}, is32bit: m.Config == "GOARCH=386"}
}

func (a *Arith) intSize(t types.Type) int {
	b, ok := t.Underlying().(*types.Basic)
	if !ok {
		return 0
	}
	switch b.Kind() {
	case types.Int8, types.Uint8:
		return 8
	case types.Int16, types.Uint16:
		return 16
	case types.Int32, types.Uint32:
		return 32
	case types.Int64, types.Uint64:
		return 64
	case types.Int, types.Uint, types.Uintptr:
		if a.is32bit {
			return 32
		}
		return 64
	}
	return 0
}

func isUnsigned(t types.Type) bool {
	b, ok := t.Underlying().(*types.Basic)
	return ok && b.Info()&types.IsUnsigned != 0
}

// lin normalises an integer SSA value.
func (a *Arith) lin(v ssa.Value) Lin { return a.linD(v, 0) }

func (a *Arith) linD(v ssa.Value, d int) Lin {
	if d > 12 {
		return a.atom(v)
	}
	switch x := v.(type) {
	case *ssa.Const:
		if x.Value != nil && x.Value.Kind() == constant.Int {
			if i, ok := constant.Int64Val(x.Value); ok {
				return linConst(i)
			}
		}
	case *ssa.BinOp:
		switch x.Op {
		case token.ADD:
			if isInteger(x.Type()) {
				return a.linD(x.X, d+1).add(a.linD(x.Y, d+1), 1)
			}
		case token.SUB:
			return a.linD(x.X, d+1).add(a.linD(x.Y, d+1), -1)
		case token.MUL:
			if c, ok := x.Y.(*ssa.Const); ok && c.Value != nil {
				if i, ok := constant.Int64Val(c.Value); ok {
					return a.linD(x.X, d+1).scale(i)
				}
			}
			if c, ok := x.X.(*ssa.Const); ok && c.Value != nil {
				if i, ok := constant.Int64Val(c.Value); ok {
					return a.linD(x.Y, d+1).scale(i)
				}
			}
		}
	case *ssa.Convert:
		from, to := a.intSize(x.X.Type()), a.intSize(x.Type())
		if from != 0 && to != 0 && to >= from && isUnsigned(x.X.Type()) == isUnsigned(x.Type()) {
			return a.linD(x.X, d+1)
		}
		if from != 0 && to > from && isUnsigned(x.X.Type()) && !isUnsigned(x.Type()) {
			return a.linD(x.X, d+1) // zero-extension into a wider signed type
		}
	case *ssa.ChangeType:
		return a.linD(x.X, d+1)
	case *ssa.UnOp:
		// a load of a local variable's cell (a variable captured by a closure): the value stored once, or the value
		// of the store that reaches the load on a straight line without a call in between
		if x.Op == token.MUL && isInteger(x.Type()) {
			if sv, ok := cellValue(x); ok && sv != nil && isInteger(sv.Type()) {
				return a.linD(sv, d+1)
			}
			if sv := reachingCellStore(x); sv != nil {
				return a.linD(sv, d+1)
			}
		}
	case *ssa.Call:
		if b, ok := x.Call.Value.(*ssa.Builtin); ok && b.Name() == "len" && len(x.Call.Args) == 1 {
			return a.lenLin(x.Call.Args[0], d)
		}
		if b, ok := x.Call.Value.(*ssa.Builtin); ok && (b.Name() == "min" || b.Name() == "max") {
			return a.atom(v)
		}
		if sc := x.Call.StaticCallee(); sc != nil && fnFullName(sc) == "(*bytes.Buffer).Len" {
			return a.bufLen(x.Call.Args[0], x)
		}
		if sc := x.Call.StaticCallee(); sc != nil && pureIntFuncs[fnFullName(sc)] != 0 {
			k := "pure:" + fnFullName(sc) + "("
			for _, arg := range x.Call.Args {
				k += a.canonKey(arg) + ","
			}
			k += ")"
			if _, ok := a.atoms[k]; !ok {
				a.atoms[k] = v
			}
			if pureIntFuncs[fnFullName(sc)] == 2 {
				a.nonneg[k] = true
			}
			return linAtom(k)
		}
	}
	return a.atom(v)
}

// resultCap: the upper bound looked for in integer results (the same cap R-BOUNDS asks of counts).
const resultCap = 1<<31 - 1

// resultRange: is the i-th result of fn (an integer) proven >= 0, resp. <= resultCap, at every return of fn?
func (m *Model) resultRange(fn *ssa.Function, i int) (nonneg, capped bool) {
	type key struct {
		fn *ssa.Function
		i  int
	}
	if m.resRange == nil {
		m.resRange = map[any][2]bool{}
	}
	k := key{fn, i}
	if r, ok := m.resRange[k]; ok {
		return r[0], r[1]
	}
	m.resRange[k] = [2]bool{false, false} // recursion: assume nothing
	res := fn.Signature.Results()
	if i >= res.Len() || !isInteger(res.At(i).Type()) {
		return false, false
	}
	a := m.NewArith(fn)
	nonneg, capped = true, true
	n := 0
	for _, b := range fn.Blocks {
		ret, ok := b.Instrs[len(b.Instrs)-1].(*ssa.Return)
		if !ok || i >= len(ret.Results) {
			continue
		}
		n++
		l := a.lin(ret.Results[i])
		pt := pointOf(ret)
		if nonneg && !a.ProveValLE(l.scale(-1), 0, pt) {
			nonneg = false
		}
		if capped && !a.ProveValLE(l, resultCap, pt) {
			capped = false
		}
	}
	if n == 0 {
		nonneg, capped = false, false
	}
	if os.Getenv("TWDEBUG") != "" {
		fmt.Fprintf(os.Stderr, "resultRange %s #%d: nonneg=%v capped=%v (%d returns)\n", fnKey(fn), i, nonneg, capped, n)
	}
	m.resRange[k] = [2]bool{nonneg, capped}
	return nonneg, capped
}

// reachingCellStore: ld loads a cell (an Alloc or a closure's free variable); walking back from the load through its
// block and through single predecessors, the first instruction that can write the cell is a store to that very address,
// and no call lies in between (a call may run a closure that writes the cell). Returns the stored value.
func reachingCellStore(ld *ssa.UnOp) ssa.Value {
	switch ld.X.(type) {
	case *ssa.Alloc, *ssa.FreeVar:
	default:
		return nil
	}
	b := ld.Block()
	idx := -1
	for i, in := range b.Instrs {
		if in == ssa.Instruction(ld) {
			idx = i
		}
	}
	for hops := 0; hops < 6 && b != nil; hops++ {
		for i := idx - 1; i >= 0; i-- {
			switch in := b.Instrs[i].(type) {
			case *ssa.Store:
				if in.Addr == ld.X {
					return in.Val
				}
			case ssa.CallInstruction:
				return nil
			}
		}
		if len(b.Preds) != 1 {
			return nil
		}
		b = b.Preds[0]
		idx = len(b.Instrs)
	}
	return nil
}

// pureIntFuncs: library functions whose integer result depends only on their
// arguments (1) and is additionally non-negative (2).
var pureIntFuncs = map[string]int{
	"(reflect.Value).Len":            2,
	"(reflect.Value).NumField":       2,
	"unicode/utf8.RuneCountInString": 2,
	"unicode/utf8.RuneCount":         2,
}

// bufLen: the value of recv.Len() at instruction at, as an atom shared by all
// Len() calls on recv not separated by another use of recv.
func (a *Arith) bufLen(recv ssa.Value, at ssa.Instruction) Lin {
	k := "buflen:" + valKey(recv) + a.ctx.bufVersion(recv, at)
	if _, ok := a.atoms[k]; !ok {
		a.atoms[k] = nil
	}
	a.nonneg[k] = true
	return linAtom(k)
}

func (a *Arith) atom(v ssa.Value) Lin {
	k := a.canonKey(v)
	if _, ok := a.atoms[k]; !ok {
		a.atoms[k] = v
	}
	return linAtom(k)
}

// lenLin: len(x) as a linear form. len(make([]T,n)) = n; len(x[:]) = len(x).
func (a *Arith) lenLin(x ssa.Value, d int) Lin {
	switch y := x.(type) {
	case *ssa.MakeSlice:
		return a.linD(y.Len, d+1)
	case *ssa.Slice:
		if y.Low == nil && y.High == nil && y.Max == nil {
			if _, isArr := y.X.Type().Underlying().(*types.Pointer); !isArr {
				return a.lenLin(y.X, d+1)
			}
		}
		// a slice of a whole array (make([]T, n) with a constant n is `new [n]T` sliced): high - low
		if pt, isPtr := y.X.Type().Underlying().(*types.Pointer); isPtr {
			if at, isArr := pt.Elem().Underlying().(*types.Array); isArr {
				hi := linConst(at.Len())
				if y.High != nil {
					hi = a.linD(y.High, d+1)
				}
				if y.Low == nil {
					return hi
				}
				return hi.add(a.linD(y.Low, d+1), -1)
			}
		}
	case *ssa.Const:
		if y.Value != nil && y.Value.Kind() == constant.String {
			return linConst(int64(len(constant.StringVal(y.Value))))
		}
		if y.Value == nil {
			if _, isSl := y.Type().Underlying().(*types.Slice); isSl {
				return linConst(0) // len(nil slice)
			}
		}
	case *ssa.UnOp:
		// a field read back right after it was stored in the same block (`p.F = make([]T, 1); p.F[0] = x`): the stored
		// slice — nothing between the store and the load may write memory or call
		if y.Op == token.MUL && d < 6 {
			if fa, isFA := y.X.(*ssa.FieldAddr); isFA {
				blk := y.Block()
				var stored ssa.Value
				for _, in := range blk.Instrs {
					if in == ssa.Instruction(y) {
						break
					}
					switch z := in.(type) {
					case *ssa.Store:
						if sfa, ok := z.Addr.(*ssa.FieldAddr); ok && sfa.X == fa.X && sfa.Field == fa.Field {
							stored = z.Val
						} else if _, isLocal := z.Addr.(*ssa.Alloc); !isLocal {
							if ofa, ok := z.Addr.(*ssa.FieldAddr); !ok || ofa.Field == fa.Field {
								stored = nil
							}
						}
					case ssa.CallInstruction:
						if _, isBuiltin := z.Common().Value.(*ssa.Builtin); !isBuiltin {
							stored = nil
						}
					case *ssa.MapUpdate:
					}
				}
				if stored != nil {
					return a.lenLin(stored, d+1)
				}
			}
		}
	case *ssa.Call:
		// a module function whose result length is a fixed linear form of its parameters' lengths
		// (clone, concat: make([]T, len(a)+len(b)))
		if sc := y.Call.StaticCallee(); sc != nil && d < 6 {
			if sum, ok := a.m.lenSummary(sc); ok {
				res := linConst(sum.c)
				okAll := true
				for pi, coef := range sum.params {
					if pi >= len(y.Call.Args) {
						okAll = false
						break
					}
					res = res.add(a.lenLin(y.Call.Args[pi], d+1).scale(coef), 1)
				}
				if okAll {
					return res
				}
			}
		}
	}
	k := "len:" + a.canonKey(x)
	a.lenOf[k] = x
	if _, ok := a.atoms[k]; !ok {
		a.atoms[k] = nil
	}
	return linAtom(k)
}

// ineqsOf converts a branch fact into inequalities.
func (a *Arith) ineqsOf(f Fact) []Ineq {
	b, ok := f.Cond.(*ssa.BinOp)
	if !ok {
		return nil
	}
	op := b.Op
	if !f.Holds {
		switch op {
		case token.LSS:
			op = token.GEQ
		case token.LEQ:
			op = token.GTR
		case token.GTR:
			op = token.LEQ
		case token.GEQ:
			op = token.LSS
		case token.EQL:
			op = token.NEQ
		case token.NEQ:
			op = token.EQL
		default:
			return nil
		}
	}
	// string comparisons with ""
	if isStringT(b.X.Type()) {
		var s ssa.Value
		if isEmptyStringConst(b.Y) {
			s = b.X
		} else if isEmptyStringConst(b.X) {
			s = b.Y
		}
		if s == nil {
			return nil
		}
		l := a.lenLin(s, 0)
		switch op {
		case token.NEQ:
			return []Ineq{{l.scale(-1), -1}} // len >= 1
		case token.EQL:
			return []Ineq{{l, 0}}
		}
		return nil
	}
	if !isInteger(b.X.Type()) {
		return nil
	}
	x, y := a.lin(b.X), a.lin(b.Y)
	d := x.add(y, -1)  // x - y
	nd := y.add(x, -1) // y - x
	mk := func(l Lin, k int64) Ineq { c := l.C; l.C = 0; return Ineq{l, k - c} }
	switch op {
	case token.LSS:
		return []Ineq{mk(d, -1)}
	case token.LEQ:
		return []Ineq{mk(d, 0)}
	case token.GTR:
		return []Ineq{mk(nd, -1)}
	case token.GEQ:
		return []Ineq{mk(nd, 0)}
	case token.EQL:
		return []Ineq{mk(d, 0), mk(nd, 0)}
	}
	return nil
}

func isStringT(t types.Type) bool {
	b, ok := t.Underlying().(*types.Basic)
	return ok && b.Info()&types.IsString != 0
}

func isEmptyStringConst(v ssa.Value) bool {
	c, ok := v.(*ssa.Const)
	return ok && c.Value != nil && c.Value.Kind() == constant.String && constant.StringVal(c.Value) == ""
}

// axioms derives unconditional inequalities for the atoms of a form.
func (a *Arith) axioms(form Lin, seen map[string]bool) []Ineq {
	a.axiomDepth++
	defer func() { a.axiomDepth-- }()
	var out []Ineq
	for k := range form.T {
		if seen[k] {
			continue
		}
		seen[k] = true
		if strings.HasPrefix(k, "len:") {
			out = append(out, Ineq{linAtom(k).scale(-1), 0}) // len >= 0
			if x := a.lenOf[k]; x != nil {
				// len([]rune(s)) <= len(s); len(x[lo:hi]) etc. not needed
				if cv, ok := x.(*ssa.Convert); ok && isStringT(cv.X.Type()) {
					sl := a.lenLin(cv.X, 0)
					out = append(out, Ineq{linAtom(k).add(sl, -1), 0})
					if isRuneSlice(cv.Type()) {
						// every rune consumes at most 4 bytes: len(s) <= 4*len(runes); in integers
						// this gives len(runes) >= 1 whenever len(s) >= 1
						out = append(out, mkIneq(sl.add(linAtom(k).scale(4), -1), 0))
						if a.proveLE(sl.scale(-1), -1, a.curIneqs, 2) {
							out = append(out, Ineq{linAtom(k).scale(-1), -1})
						}
					}
				}
				if call, ok := x.(*ssa.Call); ok {
					if sc := call.Call.StaticCallee(); sc != nil && fnFullName(sc) == "strings.Split" {
						if sep, ok := call.Call.Args[1].(*ssa.Const); ok && !isEmptyStringConst(sep) {
							out = append(out, Ineq{linAtom(k).scale(-1), -1}) // at least one piece
							// strings.Contains(s, sep) known to hold: at least two pieces
							for _, f := range a.curFacts {
								fc, ok := f.Cond.(*ssa.Call)
								if !ok || !f.Holds || fc.Call.StaticCallee() == nil || fnFullName(fc.Call.StaticCallee()) != "strings.Contains" {
									continue
								}
								if a.canonKey(fc.Call.Args[0]) == a.canonKey(call.Call.Args[0]) && a.canonKey(fc.Call.Args[1]) == a.canonKey(call.Call.Args[1]) {
									out = append(out, Ineq{linAtom(k).scale(-1), -2})
								}
							}
						}
					}
				}
			}
			continue
		}
		if a.nonneg[k] {
			out = append(out, Ineq{linAtom(k).scale(-1), 0})
		}
		v := a.atoms[k]
		if v == nil {
			continue
		}
		if isInteger(v.Type()) && isUnsigned(v.Type()) {
			out = append(out, Ineq{linAtom(k).scale(-1), 0})
		}
		if inv := a.m.inv; inv != nil {
			if p, ok := v.(*ssa.Parameter); ok && inv.params[p] {
				out = append(out, Ineq{linAtom(k).scale(-1), 0})
			}
			if ld, ok := v.(*ssa.UnOp); ok && ld.Op == token.MUL {
				if fa, ok := ld.X.(*ssa.FieldAddr); ok && inv.fields[fieldID{derefTypeString(fa.X.Type()), fa.Field}] {
					out = append(out, Ineq{linAtom(k).scale(-1), 0})
				}
				if al, ok := ld.X.(*ssa.Alloc); ok && inv.cells[al] {
					out = append(out, Ineq{linAtom(k).scale(-1), -inv.cellLow[al]})
				}
				if fv, ok := ld.X.(*ssa.FreeVar); ok && inv.cellOf[fv] != nil && inv.cells[inv.cellOf[fv]] {
					out = append(out, Ineq{linAtom(k).scale(-1), -inv.cellLow[inv.cellOf[fv]]})
				}
			}
		}
		// the size reported by utf8.DecodeRuneInString / DecodeLastRuneInString: between 0 and the length of the string
		if ex, ok := v.(*ssa.Extract); ok && ex.Index == 1 {
			if dc, isC := ex.Tuple.(*ssa.Call); isC && dc.Call.StaticCallee() != nil && strings.HasPrefix(fnFullName(dc.Call.StaticCallee()), "unicode/utf8.Decode") && len(dc.Call.Args) == 1 && a.axiomDepth <= 1 {
				out = append(out, Ineq{linAtom(k).scale(-1), 0})
				out = append(out, Ineq{linAtom(k).add(a.lenLin(dc.Call.Args[0], 0), -1), 0})
			}
		}
		// an integer result of a module function: the range every return of that function is proven to lie in
		{
			var rc *ssa.Call
			ri := 0
			switch y := v.(type) {
			case *ssa.Extract:
				rc, _ = y.Tuple.(*ssa.Call)
				ri = y.Index
			case *ssa.Call:
				rc = y
			}
			if rc != nil && a.axiomDepth <= 1 {
				if sc := rc.Call.StaticCallee(); sc != nil && a.m.InModule(sc) && sc.Blocks != nil {
					if lo, hi := a.m.resultRange(sc, ri); lo || hi {
						if lo {
							out = append(out, Ineq{linAtom(k).scale(-1), 0})
						}
						if hi {
							out = append(out, Ineq{linAtom(k), resultCap})
						}
					}
				}
			}
		}
		switch x := v.(type) {
		case *ssa.Phi:
			// induction: phi(init, phi+c1, phi+c2, ...) with all ci of one sign => monotone
			var inits []Lin
			up, down, okInd := 0, 0, true
			for _, e := range x.Edges {
				if !dependsOn(e, x) {
					il := a.lin(e)
					dupl := false
					for _, p := range inits {
						if p.String() == il.String() {
							dupl = true
						}
					}
					if !dupl {
						inits = append(inits, il)
					}
					continue
				}
				sl := a.lin(e).add(linAtom(k), -1) // step - phi
				if len(sl.T) != 0 || sl.C == 0 {
					okInd = false
					break
				}
				if sl.C > 0 {
					up++
				} else {
					down++
				}
			}
			// a counter of the passes of a range-over-map loop (0 at entry, +1 on every back edge) is bounded by the
			// number of entries, provided the loop cannot change the map: i <= len(m), and i <= len(m)-1 inside a pass
			if mp := a.mapRangeCounter(x); mp != nil {
				ml := a.lenLin(mp, 0)
				inBody := false
				for _, f := range a.curFacts {
					if ex, isEx := f.Cond.(*ssa.Extract); isEx && f.Holds && ex.Index == 0 {
						if nx, isNx := ex.Tuple.(*ssa.Next); isNx && nx.Block() == x.Block() {
							inBody = true
						}
					}
				}
				if inBody {
					out = append(out, mkIneq(linAtom(k).add(ml, -1), -1))
				} else {
					out = append(out, mkIneq(linAtom(k).add(ml, -1), 0))
				}
			}
			if okInd && len(inits) == 1 && (up == 0) != (down == 0) {
				if up > 0 { // phi >= init
					out = append(out, mkIneq(inits[0].add(linAtom(k), -1), 0))
				} else { // phi <= init
					out = append(out, mkIneq(linAtom(k).add(inits[0], -1), 0))
				}
			}
		case *ssa.BinOp:
			if x.Op == token.QUO {
				if c, ok := x.Y.(*ssa.Const); ok && c.Value != nil {
					if d, ok := constant.Int64Val(c.Value); ok && d >= 1 {
						xl := a.lin(x.X)
						if a.proveLE(xl.scale(-1), 0, nil, 2) { // X >= 0
							out = append(out, mkIneq(linAtom(k).add(xl, -1), 0)) // X/d <= X
							out = append(out, Ineq{linAtom(k).scale(-1), 0})     // X/d >= 0
						}
					}
				}
			}
		case *ssa.Call:
			if sc := x.Call.StaticCallee(); sc != nil && a.m.InModule(sc) && a.fn != sc {
				if pk, ok := a.m.indexSummary(sc); ok && pk < len(x.Call.Args) {
					// returns -1 or a valid index of its pk-th argument
					out = append(out, Ineq{linAtom(k).scale(-1), 1})
					out = append(out, mkIneq(linAtom(k).add(a.lenLin(x.Call.Args[pk], 0), -1), -1))
				}
			}
			if sc := x.Call.StaticCallee(); sc != nil && sc.Pkg != nil {
				full := sc.Pkg.Pkg.Path() + "." + canonFnName(sc)
				switch full {
				case "unicode/utf8.RuneCountInString", "unicode/utf8.RuneCount":
					out = append(out, Ineq{linAtom(k).scale(-1), 0})
					out = append(out, mkIneq(linAtom(k).add(a.lenLin(x.Call.Args[0], 0), -1), 0))
				case "math/rand.Intn", "math/rand/v2.IntN":
					out = append(out, Ineq{linAtom(k).scale(-1), 0})
					out = append(out, mkIneq(linAtom(k).add(a.lin(x.Call.Args[0]), -1), -1))
				case "strings.Index", "strings.IndexByte", "strings.LastIndex":
					out = append(out, Ineq{linAtom(k).scale(-1), 1}) // >= -1
					out = append(out, mkIneq(linAtom(k).add(a.lenLin(x.Call.Args[0], 0), -1), -1))
				}
			}
			if b, ok := x.Call.Value.(*ssa.Builtin); ok {
				switch b.Name() {
				case "min":
					for _, arg := range x.Call.Args {
						out = append(out, mkIneq(linAtom(k).add(a.lin(arg), -1), 0))
					}
				case "max":
					for _, arg := range x.Call.Args {
						out = append(out, mkIneq(a.lin(arg).add(linAtom(k), -1), 0))
					}
				case "copy":
					// n := copy(dst, src): 0 <= n <= len(dst), n <= len(src)
					out = append(out, Ineq{linAtom(k).scale(-1), 0})
					for _, arg := range x.Call.Args {
						out = append(out, mkIneq(linAtom(k).add(a.lenLin(arg, 0), -1), 0))
					}
				}
			}
		}
	}
	return out
}

func mkIneq(l Lin, k int64) Ineq { c := l.C; l.C = 0; return Ineq{l, k - c} }

func dependsOn(v ssa.Value, phi *ssa.Phi) bool {
	seen := map[ssa.Value]bool{}
	var walk func(ssa.Value, int) bool
	walk = func(x ssa.Value, d int) bool {
		if x == phi {
			return true
		}
		if d > 6 || seen[x] {
			return false
		}
		seen[x] = true
		if in, ok := x.(ssa.Instruction); ok {
			for _, op := range in.Operands(nil) {
				if *op != nil && walk(*op, d+1) {
					return true
				}
			}
		}
		return false
	}
	return walk(v, 0)
}

// proveLE: does form <= k follow from ineqs (+ axioms) by bounded elimination?
func (a *Arith) proveLE(form Lin, k int64, ineqs []Ineq, depth int) bool {
	k -= form.C
	form.C = 0
	if len(form.T) == 0 {
		return 0 <= k
	}
	if depth <= 0 {
		return false
	}
	all := append([]Ineq{}, ineqs...)
	seenAx := map[string]bool{}
	all = append(all, a.axioms(form, seenAx)...)
	// axioms about atoms that occur only in the known inequalities can bridge them to the goal
	// (goal: len(x) >= 1; known: len(x)/2 >= 1; bridge: len(x)/2 <= len(x))
	if a.axiomDepth == 0 { // the axiom generator itself proves side conditions: no bridging inside those
		for _, q := range ineqs {
			all = append(all, a.axioms(q.Form, seenAx)...)
		}
	}
	for _, q := range all {
		// use q scaled by s>0 such that at least one atom cancels
		tried := map[int64]bool{}
		for atomK, coef := range form.T {
			qc := q.Form.T[atomK]
			if qc == 0 || (qc > 0) != (coef > 0) || coef%qc != 0 {
				continue
			}
			s := coef / qc
			if s <= 0 || tried[s] {
				continue
			}
			tried[s] = true
			rest := form.add(q.Form.scale(s), -1)
			if len(rest.T) > len(form.T) {
				continue
			}
			if len(rest.T) == len(form.T) && depth < 2 {
				continue
			}
			if a.proveLE(rest, k-s*q.K, ineqs, depth-1) {
				return true
			}
		}
	}
	return false
}

// ---------------------------------------------------------------------------
// Proving facts about a value at a program point, with phi edge splitting.

type point struct {
	block *ssa.BasicBlock
	facts []Fact
}

func pointOf(in ssa.Instruction) point {
	return point{in.Block(), expandFacts(factsAt(in.Block()))}
}

// ProveLE proves lin(v)+off <= lin(w) at the point (w nil means 0).
func (a *Arith) ProveValLE(form Lin, k int64, pt point) bool {
	return a.proveWithPhis(form, k, pt, 3, map[*ssa.Phi]bool{})
}

func (a *Arith) ineqsFrom(facts []Fact) []Ineq {
	var out []Ineq
	type neq struct {
		d Lin // x - y != 0
	}
	var neqs []neq
	for _, f := range facts {
		out = append(out, a.ineqsOf(f)...)
		if b, ok := f.Cond.(*ssa.BinOp); ok && isInteger(b.X.Type()) {
			if (b.Op == token.NEQ && f.Holds) || (b.Op == token.EQL && !f.Holds) {
				neqs = append(neqs, neq{a.lin(b.X).add(a.lin(b.Y), -1)})
			}
		}
	}
	// x != c together with x >= c gives x >= c+1 (and symmetrically); iterate for chains (len != 0, len != 1)
	for iter := 0; iter < 4 && len(neqs) > 0; iter++ {
		changed := false
		var rest []neq
		for _, n := range neqs {
			switch {
			case a.proveLE(n.d.scale(-1), 0, out, 3): // d >= 0
				out = append(out, mkIneq(n.d.scale(-1), -1)) // d >= 1
				changed = true
			case a.proveLE(n.d, 0, out, 3): // d <= 0
				out = append(out, mkIneq(n.d, -1))
				changed = true
			default:
				rest = append(rest, n)
			}
		}
		neqs = rest
		if !changed {
			break
		}
	}
	return out
}

func (a *Arith) proveWithPhis(form Lin, k int64, pt point, depth int, busy map[*ssa.Phi]bool) bool {
	ineqs := append(a.ineqsFrom(pt.facts), a.extraIneqs...)
	saved, savedF := a.curIneqs, a.curFacts
	a.curIneqs, a.curFacts = ineqs, pt.facts
	defer func() { a.curIneqs, a.curFacts = saved, savedF }()
	if a.proveLE(form, k, ineqs, 4) {
		return true
	}
	if depth == 0 {
		return false
	}
	// split on a phi atom of the form
	var keys []string
	for key := range form.T {
		keys = append(keys, key)
	}
	sort.Strings(keys)
	for _, key := range keys {
		phi, ok := a.atoms[key].(*ssa.Phi)
		if !ok || busy[phi] {
			continue
		}
		busy[phi] = true
		okAll := true
		for i, e := range phi.Edges {
			pred := phi.Block().Preds[i]
			el := a.lin(e)
			// substitute key := el in form and in the facts (as inequalities)
			nf := substitute(form, key, el)
			efacts := expandFacts(factsOnEdge(pred, phi.Block()))
			var sub []Ineq
			for _, q := range ineqs {
				sub = append(sub, Ineq{substituteNoC(q.Form, key, el, &q.K), q.K})
			}
			sub = append(sub, a.ineqsFrom(efacts)...)
			if os.Getenv("TWDEBUG") != "" {
				fmt.Fprintf(os.Stderr, "phi-split %s edge %d: prove %s <= %d with %d ineqs (efacts %d)\n", key, i, nf.String(), k, len(sub), len(efacts))
				for _, q := range sub {
					fmt.Fprintf(os.Stderr, "     %s <= %d\n", q.Form.String(), q.K)
				}
			}
			if a.proveLE(nf, k, sub, 4) {
				continue
			}
			// recurse one more phi level on the edge value
			if a.proveWithPhis(nf, k, point{pred, append(efacts, pt.facts...)}, depth-1, busy) {
				continue
			}
			okAll = false
			break
		}
		delete(busy, phi)
		if okAll {
			return true
		}
	}
	// split on a min/max atom: its value is one of its arguments (under "that argument is the smallest/largest")
	for _, key := range keys {
		call, ok := a.atoms[key].(*ssa.Call)
		if !ok {
			continue
		}
		bi, ok := call.Call.Value.(*ssa.Builtin)
		if !ok || (bi.Name() != "min" && bi.Name() != "max") {
			continue
		}
		okAll := true
		for i, e := range call.Call.Args {
			el := a.lin(e)
			nf := substitute(form, key, el)
			var sub []Ineq
			for _, q := range ineqs {
				sub = append(sub, Ineq{substituteNoC(q.Form, key, el, &q.K), q.K})
			}
			for j, o := range call.Call.Args {
				if j == i {
					continue
				}
				if bi.Name() == "min" {
					sub = append(sub, mkIneq(el.add(a.lin(o), -1), 0)) // e <= o
				} else {
					sub = append(sub, mkIneq(a.lin(o).add(el, -1), 0)) // o <= e
				}
			}
			if a.proveLE(nf, k, sub, 4) {
				continue
			}
			// the substituted form may contain a phi or another min/max: go one level deeper with the case constraints as facts
			saved2 := a.extraIneqs
			a.extraIneqs = append(append([]Ineq{}, saved2...), sub[len(ineqs):]...)
			deeper := a.proveWithPhis(nf, k, pt, depth-1, busy)
			a.extraIneqs = saved2
			if deeper {
				continue
			}
			okAll = false
			break
		}
		if okAll {
			return true
		}
	}
	return false
}

func substitute(form Lin, key string, by Lin) Lin {
	c := form.T[key]
	if c == 0 {
		return form
	}
	r := form.add(linAtom(key).scale(c), -1)
	return r.add(by.scale(c), 1)
}

// substituteNoC substitutes inside an inequality "Form <= K" keeping Form constant-free.
func substituteNoC(form Lin, key string, by Lin, k *int64) Lin {
	r := substitute(form, key, by)
	*k -= r.C
	r.C = 0
	return r
}

// ---------------------------------------------------------------------------
// Field may-write sets (for "no intervening write" on access paths)

type fieldID struct {
	typ   string
	field int
}

func (m *Model) directFieldWrites(fn *ssa.Function) map[fieldID]bool {
	out := map[fieldID]bool{}
	for _, b := range fn.Blocks {
		for _, in := range b.Instrs {
			st, ok := in.(*ssa.Store)
			if !ok {
				continue
			}
			if fa, ok := st.Addr.(*ssa.FieldAddr); ok {
				out[fieldID{derefTypeString(fa.X.Type()), fa.Field}] = true
			}
		}
	}
	return out
}

func derefTypeString(t types.Type) string {
	if p, ok := t.Underlying().(*types.Pointer); ok {
		t = p.Elem()
	}
	return types.TypeString(t, nil)
}

// ---------------------------------------------------------------------------
// FnCtx: per-function CFG reachability and versioning of field-path loads.

type FnCtx struct {
	m       *Model
	fn      *ssa.Function
	reach   map[*ssa.BasicBlock]map[*ssa.BasicBlock]bool // strict: path of >=1 edge
	idx     map[ssa.Instruction]int
	writers map[fieldID][]ssa.Instruction // instructions in fn that may write the field
	loads   map[string][]ssa.Value        // root+path -> loads in fn (dominance order not guaranteed)
	vers    map[ssa.Value]string
}

func (m *Model) Ctx(fn *ssa.Function) *FnCtx {
	if m.ctxs == nil {
		m.ctxs = map[*ssa.Function]*FnCtx{}
	}
	if c, ok := m.ctxs[fn]; ok {
		return c
	}
	c := &FnCtx{m: m, fn: fn, reach: map[*ssa.BasicBlock]map[*ssa.BasicBlock]bool{}, idx: map[ssa.Instruction]int{},
		writers: map[fieldID][]ssa.Instruction{}, loads: map[string][]ssa.Value{}, vers: map[ssa.Value]string{}}
	for _, b := range fn.Blocks {
		for i, in := range b.Instrs {
			c.idx[in] = i
		}
	}
	for _, b := range fn.Blocks {
		seen := map[*ssa.BasicBlock]bool{}
		var stack []*ssa.BasicBlock
		stack = append(stack, b.Succs...)
		for len(stack) > 0 {
			x := stack[len(stack)-1]
			stack = stack[:len(stack)-1]
			if seen[x] {
				continue
			}
			seen[x] = true
			stack = append(stack, x.Succs...)
		}
		c.reach[b] = seen
	}
	trans := m.fieldWritesTrans()
	for _, b := range fn.Blocks {
		for _, in := range b.Instrs {
			switch x := in.(type) {
			case *ssa.Store:
				if fa, ok := x.Addr.(*ssa.FieldAddr); ok {
					id := fieldID{derefTypeString(fa.X.Type()), fa.Field}
					c.writers[id] = append(c.writers[id], in)
				}
			case ssa.CallInstruction:
				for _, cal := range m.calleesOf(x) {
					for id := range trans[cal] {
						c.writers[id] = append(c.writers[id], in)
					}
				}
			}
			if v, ok := in.(ssa.Value); ok {
				if r, p, ok := pathOf(v); ok {
					if _, isAddr := v.(*ssa.FieldAddr); !isAddr {
						k := valKey(r) + p
						c.loads[k] = append(c.loads[k], v)
					}
				}
			}
		}
	}
	m.ctxs[fn] = c
	return c
}

// instrReaches: can control flow from a (after executing it) reach b?
func (c *FnCtx) instrReaches(a, b ssa.Instruction) bool {
	if a.Block() == b.Block() && c.idx[a] < c.idx[b] {
		return true
	}
	return c.reach[a.Block()][b.Block()]
}

// pathAvoiding: is there a control-flow path from just after src to dst that
// does not execute `avoid` on the way (avoid == src is the usual case: "without
// re-executing src")?
func (c *FnCtx) pathAvoiding(src, dst, avoid ssa.Instruction) bool {
	sb, db, ab := src.Block(), dst.Block(), avoid.Block()
	si, di, ai := c.idx[src], c.idx[dst], c.idx[avoid]
	// within the source block, after src
	if sb == db && si < di {
		if !(ab == sb && ai > si && ai < di) {
			return true
		}
	}
	if ab == sb && ai > si {
		return false // cannot leave the block without executing avoid
	}
	seen := map[*ssa.BasicBlock]bool{}
	stack := append([]*ssa.BasicBlock{}, sb.Succs...)
	for len(stack) > 0 {
		b := stack[len(stack)-1]
		stack = stack[:len(stack)-1]
		if seen[b] {
			continue
		}
		seen[b] = true
		if b == db {
			if !(ab == b && ai < di) {
				return true
			}
		}
		if b == ab {
			continue // executing avoid: do not go past it
		}
		stack = append(stack, b.Succs...)
	}
	return false
}

func (c *FnCtx) instrDominates(a, b ssa.Instruction) bool {
	if a.Block() == b.Block() {
		return c.idx[a] <= c.idx[b]
	}
	return a.Block().Dominates(b.Block())
}

// pathFields lists the fieldIDs along the access path of load v.
func pathFields(v ssa.Value) []fieldID {
	var out []fieldID
	for {
		switch x := v.(type) {
		case *ssa.UnOp:
			if fa, ok := x.X.(*ssa.FieldAddr); ok {
				out = append(out, fieldID{derefTypeString(fa.X.Type()), fa.Field})
				v = fa.X
				continue
			}
		case *ssa.Field:
			out = append(out, fieldID{derefTypeString(x.X.Type()), x.Field})
			v = x.X
			continue
		case *ssa.FieldAddr:
			out = append(out, fieldID{derefTypeString(x.X.Type()), x.Field})
			v = x.X
			continue
		case *ssa.Call:
			if f, ok := getterField(x); ok {
				out = append(out, fieldID{derefTypeString(x.Call.Args[0].Type()), f})
				v = x.Call.Args[0]
				continue
			}
		}
		return out
	}
}

// version returns a suffix that distinguishes loads of the same path that are
// separated by a possible write to a field of the path.
func (c *FnCtx) version(v, root ssa.Value, path string) string {
	if s, ok := c.vers[v]; ok {
		return s
	}
	vin, ok := v.(ssa.Instruction)
	if !ok {
		return ""
	}
	fields := pathFields(v)
	var ws []ssa.Instruction
	for _, f := range fields {
		ws = append(ws, c.writers[f]...)
	}
	res := "#" + v.Name()
	if len(ws) == 0 {
		res = ""
	} else {
		key := valKey(root) + path
		var qual []ssa.Value
		for _, l0 := range c.loads[key] {
			lin0 := l0.(ssa.Instruction)
			if l0 == v || !c.instrDominates(lin0, vin) {
				continue
			}
			killed := false
			for _, w := range ws {
				if c.pathAvoiding(lin0, w, lin0) && c.pathAvoiding(w, vin, lin0) {
					killed = true
					break
				}
			}
			if !killed {
				qual = append(qual, l0)
			}
		}
		// dominators of v form a chain: take the outermost qualifying load
		for _, q := range qual {
			outer := true
			for _, o := range qual {
				if o != q && !c.instrDominates(q.(ssa.Instruction), o.(ssa.Instruction)) {
					outer = false
				}
			}
			if outer {
				res = "#" + q.Name()
				break
			}
		}
	}
	c.vers[v] = res
	return res
}

// fieldWritesTrans: for every module function, the struct fields it may write
// directly or through module callees (fixpoint over the call graph).
func (m *Model) fieldWritesTrans() map[*ssa.Function]map[fieldID]bool {
	if m.fwTrans != nil {
		return m.fwTrans
	}
	res := map[*ssa.Function]map[fieldID]bool{}
	for fn := range m.AllFns {
		if m.InModule(fn) || isSynthetic(fn) {
			res[fn] = m.directFieldWrites(fn)
		}
	}
	for changed := true; changed; {
		changed = false
		for fn, set := range res {
			node := m.CG.Nodes[fn]
			if node == nil {
				continue
			}
			for _, e := range node.Out {
				for id := range res[e.Callee.Func] {
					if !set[id] {
						set[id] = true
						changed = true
					}
				}
			}
		}
	}
	m.fwTrans = res
	return res
}

// bufVersion: see Arith.bufLen.
func (c *FnCtx) bufVersion(recv ssa.Value, at ssa.Instruction) string {
	var lens, muts []ssa.Instruction
	if refs := recv.Referrers(); refs != nil {
		for _, r := range *refs {
			if call, ok := r.(*ssa.Call); ok {
				if sc := call.Call.StaticCallee(); sc != nil && fnFullName(sc) == "(*bytes.Buffer).Len" {
					lens = append(lens, r)
					continue
				}
			}
			if r != at {
				muts = append(muts, r)
			}
		}
	}
	var qual []ssa.Instruction
	for _, l := range lens {
		if l == at || !c.instrDominates(l, at) {
			continue
		}
		killed := false
		for _, w := range muts {
			if c.pathAvoiding(l, w, l) && c.pathAvoiding(w, at, l) {
				killed = true
				break
			}
		}
		if !killed {
			qual = append(qual, l)
		}
	}
	for _, q := range qual {
		outer := true
		for _, o := range qual {
			if o != q && !c.instrDominates(q, o) {
				outer = false
			}
		}
		if outer {
			return "#" + q.(ssa.Value).Name()
		}
	}
	if v, ok := at.(ssa.Value); ok {
		return "#" + v.Name()
	}
	return fmt.Sprintf("#at%d.%d", at.Block().Index, c.idx[at])
}

// ---------------------------------------------------------------------------
// Inductive non-negativity invariants of integer struct fields and parameters.
//
// A signed integer field is non-negative if every store to it in the module
// stores a value that is provably >= 0 assuming all candidate fields and
// parameters are (greatest fixpoint; zero values and literals are >= 0).
// A parameter is non-negative if it has at least one in-module call site and
// every call site passes a provably non-negative argument. Integer overflow is
// not modelled.

type nonnegInv struct {
	fields  map[fieldID]bool
	params  map[*ssa.Parameter]bool
	cells   map[*ssa.Alloc]bool         // integer locals captured by closures (memory cells shared with them)
	cellLow map[*ssa.Alloc]int64        // the lower bound that holds for a cell in cells (0, or a small negative constant)
	cellOf  map[*ssa.FreeVar]*ssa.Alloc // a closure's free variable -> the captured cell
}

func (m *Model) NonnegInv() *nonnegInv {
	if m.inv != nil && m.invDone {
		return m.inv
	}
	inv := &nonnegInv{fields: map[fieldID]bool{}, params: map[*ssa.Parameter]bool{}, cells: map[*ssa.Alloc]bool{}, cellLow: map[*ssa.Alloc]int64{}, cellOf: map[*ssa.FreeVar]*ssa.Alloc{}}
	m.inv = inv
	type cellStore struct {
		st   *ssa.Store
		cell *ssa.Alloc
	}
	var cellStores []cellStore
	type storeSite struct {
		st *ssa.Store
		id fieldID
	}
	var stores []storeSite
	type argSite struct {
		p    *ssa.Parameter
		site ssa.CallInstruction
		arg  ssa.Value
	}
	var args []argSite
	var fns []*ssa.Function
	for _, fn := range m.ModFns {
		if isUserPkg(fnPkgPath(fn)) || fn.Blocks == nil {
			continue
		}
		fns = append(fns, fn)
	}
	for _, fn := range fns {
		for _, b := range fn.Blocks {
			for _, in := range b.Instrs {
				if mc, ok := in.(*ssa.MakeClosure); ok {
					if cf, isFn := mc.Fn.(*ssa.Function); isFn {
						for i, bnd := range mc.Bindings {
							if al, isAl := bnd.(*ssa.Alloc); isAl && i < len(cf.FreeVars) {
								if et := al.Type().Underlying().(*types.Pointer).Elem(); isInteger(et) && !isUnsigned(et) {
									inv.cells[al] = true
									inv.cellOf[cf.FreeVars[i]] = al
								}
							}
						}
					}
				}
			}
		}
	}
	for _, fn := range fns {
		for _, b := range fn.Blocks {
			for _, in := range b.Instrs {
				if st, ok := in.(*ssa.Store); ok {
					switch ad := st.Addr.(type) {
					case *ssa.Alloc:
						if inv.cells[ad] {
							cellStores = append(cellStores, cellStore{st, ad})
						}
					case *ssa.FreeVar:
						if c := inv.cellOf[ad]; c != nil {
							cellStores = append(cellStores, cellStore{st, c})
						}
					}
					if fa, ok := st.Addr.(*ssa.FieldAddr); ok && isInteger(st.Val.Type()) && !isUnsigned(st.Val.Type()) {
						id := fieldID{derefTypeString(fa.X.Type()), fa.Field}
						if strings.HasPrefix(id.typ, modPath) {
							inv.fields[id] = true
							stores = append(stores, storeSite{st, id})
						}
					}
				}
			}
		}
		node := m.CG.Nodes[fn]
		for pi, p := range fn.Params {
			if !isInteger(p.Type()) || isUnsigned(p.Type()) || node == nil {
				continue
			}
			n := 0
			for _, e := range node.In {
				caller := e.Caller.Func
				if isUserPkg(fnPkgPath(caller)) || !m.InModule(caller) {
					continue
				}
				com := e.Site.Common()
				ai := pi
				if com.IsInvoke() {
					ai = pi - 1 // receiver is not in Args
				}
				if ai < 0 || ai >= len(com.Args) {
					n = -1000
					break
				}
				args = append(args, argSite{p, e.Site, com.Args[ai]})
				n++
			}
			if n > 0 {
				inv.params[p] = true
			}
		}
	}
	// a cell's candidate lower bound: 0, or the smallest small negative constant stored into it (i := -1 ... i++)
	for _, s := range cellStores {
		if k, ok := s.st.Val.(*ssa.Const); ok && k.Value != nil {
			if v, isInt := constant.Int64Val(k.Value); isInt && v < inv.cellLow[s.cell] && v >= -8 {
				inv.cellLow[s.cell] = v
			}
		}
	}
	ariths := map[*ssa.Function]*Arith{}
	ar := func(fn *ssa.Function) *Arith {
		if a, ok := ariths[fn]; ok {
			return a
		}
		a := m.NewArith(fn)
		ariths[fn] = a
		return a
	}
	for changed := true; changed; {
		changed = false
		for _, s := range stores {
			if !inv.fields[s.id] {
				continue
			}
			a := ar(s.st.Parent())
			if !a.ProveValLE(a.lin(s.st.Val).scale(-1), 0, pointOf(s.st)) {
				delete(inv.fields, s.id)
				changed = true
			}
		}
		for _, s := range cellStores {
			if !inv.cells[s.cell] {
				continue
			}
			a := ar(s.st.Parent())
			if !a.ProveValLE(a.lin(s.st.Val).scale(-1), -inv.cellLow[s.cell], pointOf(s.st)) {
				delete(inv.cells, s.cell)
				changed = true
			}
		}
		for _, s := range args {
			if !inv.params[s.p] {
				continue
			}
			a := ar(s.site.Parent())
			if !a.ProveValLE(a.lin(s.arg).scale(-1), 0, pointOf(s.site)) {
				delete(inv.params, s.p)
				changed = true
			}
		}
	}
	m.invDone = true
	return inv
}

func isRuneSlice(t types.Type) bool {
	sl, ok := t.Underlying().(*types.Slice)
	if !ok {
		return false
	}
	b, ok := sl.Elem().Underlying().(*types.Basic)
	return ok && b.Kind() == types.Int32
}

// indexSummary: fn returns an int that is -1 or provably 0 <= r < len(param k) on every path; reports k.
func (m *Model) indexSummary(fn *ssa.Function) (int, bool) {
	if m.idxSum == nil {
		m.idxSum = map[*ssa.Function]int{}
	}
	if k, ok := m.idxSum[fn]; ok {
		return k, k >= 0
	}
	m.idxSum[fn] = -1
	if fn.Blocks == nil || fn.Signature.Results().Len() != 1 || !isInteger(fn.Signature.Results().At(0).Type()) {
		return 0, false
	}
	a := m.NewArith(fn)
	for pk, p := range fn.Params {
		if _, isSlice := p.Type().Underlying().(*types.Slice); !isSlice {
			continue
		}
		okAll, n := true, 0
		for _, b := range fn.Blocks {
			ret, ok := b.Instrs[len(b.Instrs)-1].(*ssa.Return)
			if !ok {
				continue
			}
			v := ret.Results[0]
			if c, isC := v.(*ssa.Const); isC && c.Value != nil && c.Int64() == -1 {
				continue
			}
			n++
			// the library's own index search over this very slice: -1 or an index into it
			if lc, isLC := v.(*ssa.Call); isLC && lc.Call.StaticCallee() != nil && len(lc.Call.Args) >= 1 && lc.Call.Args[0] == ssa.Value(p) {
				if name := fnFullName(lc.Call.StaticCallee()); strings.HasPrefix(name, "slices.IndexFunc") || strings.HasPrefix(name, "slices.Index[") || name == "slices.Index" {
					continue
				}
			}
			pt := pointOf(ret)
			l := a.lin(v)
			if !(a.ProveValLE(l.scale(-1), 0, pt) && a.ProveValLE(l.add(a.lenLin(p, 0), -1), -1, pt)) {
				okAll = false
			}
		}
		if okAll && n > 0 {
			m.idxSum[fn] = pk
			return pk, true
		}
	}
	return 0, false
}

// guardedLifting: is the instruction guarded (guard holds for its block), or — lifting through the
// static module callers of its function, so that a statement moved into a helper keeps its guard at
// the helper's call sites — guarded on every call chain? Returns the unguarded position otherwise.
func (m *Model) guardedLifting(in ssa.Instruction, guard func(b *ssa.BasicBlock) bool, depth int) (bool, string) {
	if guard(in.Block()) {
		return true, ""
	}
	fn := in.Parent()
	node := m.CG.Nodes[fn]
	if node == nil || depth > 3 {
		return false, m.InstrPos(in)
	}
	n := 0
	for _, e := range node.In {
		if e.Site == nil || !m.InModule(e.Caller.Func) || isUserPkg(fnPkgPath(e.Caller.Func)) {
			continue
		}
		if e.Site.Common().StaticCallee() != fn {
			return false, m.InstrPos(in) // reachable through a dynamic call: callers are not enumerable
		}
		n++
		if ok, pos := m.guardedLifting(e.Site, guard, depth+1); !ok {
			return false, pos
		}
	}
	if n == 0 {
		return false, m.InstrPos(in)
	}
	return true, ""
}

// mapRangeCounter: phi is a counter of the passes of a range-over-map loop — it sits in the loop header next to
// the iterator's Next, is 0 on every entry edge and phi+1 on every back edge — and the loop body cannot change
// any map (no map update, no call other than len/cap/append/copy/min/max). Returns the ranged map.
func (a *Arith) mapRangeCounter(phi *ssa.Phi) ssa.Value {
	hdr := phi.Block()
	var mp ssa.Value
	for _, in := range hdr.Instrs {
		if nx, ok := in.(*ssa.Next); ok && !nx.IsString {
			if rg, ok := nx.Iter.(*ssa.Range); ok {
				if _, isMap := rg.X.Type().Underlying().(*types.Map); isMap {
					mp = rg.X
				}
			}
		}
	}
	if mp == nil {
		return nil
	}
	var li *loopInfo
	for _, l := range naturalLoops(phi.Parent()) {
		if l.header == hdr {
			li = l
		}
	}
	if li == nil {
		return nil
	}
	for i, e := range phi.Edges {
		if li.body[hdr.Preds[i]] {
			bo, ok := e.(*ssa.BinOp)
			if !ok || bo.Op != token.ADD {
				return nil
			}
			c, isC := bo.Y.(*ssa.Const)
			if bo.X != ssa.Value(phi) || !isC || c.Value == nil || c.Int64() != 1 {
				return nil
			}
		} else {
			c, isC := e.(*ssa.Const)
			if !isC || c.Value == nil || c.Int64() != 0 {
				return nil
			}
		}
	}
	for b := range li.body {
		for _, in := range b.Instrs {
			switch x := in.(type) {
			case *ssa.MapUpdate, *ssa.Go, *ssa.Defer:
				return nil
			case *ssa.Call:
				bi, ok := x.Call.Value.(*ssa.Builtin)
				if !ok {
					return nil
				}
				switch bi.Name() {
				case "len", "cap", "append", "copy", "min", "max":
				default:
					return nil
				}
			}
		}
	}
	return mp
}

// lenSum: len(result) = c + sum coef_i * len(param_i).
type lenSum struct {
	c      int64
	params map[int]int64
}

// lenSummary: fn returns one slice whose length, on every return, is the same linear form of the lengths of its
// slice/string parameters (evaluated with fn's own Arith: make, calls to functions with summaries, nil).
func (m *Model) lenSummary(fn *ssa.Function) (lenSum, bool) {
	if m.lenSums == nil {
		m.lenSums = map[*ssa.Function]*lenSum{}
		m.lenSumBusy = map[*ssa.Function]bool{}
	}
	if s, ok := m.lenSums[fn]; ok {
		if s == nil {
			return lenSum{}, false
		}
		return *s, true
	}
	if m.lenSumBusy[fn] || fn.Blocks == nil || !m.InModule(fn) || fn.Signature.Results().Len() != 1 {
		return lenSum{}, false
	}
	if _, isSl := fn.Signature.Results().At(0).Type().Underlying().(*types.Slice); !isSl {
		return lenSum{}, false
	}
	m.lenSumBusy[fn] = true
	defer delete(m.lenSumBusy, fn)
	a := m.NewArith(fn)
	var got *lenSum
	okAll := true
	for _, b := range fn.Blocks {
		ret, isRet := b.Instrs[len(b.Instrs)-1].(*ssa.Return)
		if !isRet {
			continue
		}
		l := a.lenLin(ret.Results[0], 0)
		cur := lenSum{c: l.C, params: map[int]int64{}}
		for k, coef := range l.T {
			matched := false
			for pi, p := range fn.Params {
				if k == "len:"+a.canonKey(p) {
					cur.params[pi] += coef
					matched = true
				}
			}
			if !matched {
				okAll = false
			}
		}
		if got == nil {
			got = &cur
		} else if got.c != cur.c || len(got.params) != len(cur.params) {
			okAll = false
		} else {
			for pi, coef := range cur.params {
				if got.params[pi] != coef {
					okAll = false
				}
			}
		}
	}
	if !okAll || got == nil {
		m.lenSums[fn] = nil
		return lenSum{}, false
	}
	m.lenSums[fn] = got
	return *got, true
}

// forwardLocal: the load `at` reads the path `path` of a local struct object (root: an Alloc of this function). When
// exactly one store in the function writes that path or a prefix of it, the store dominates the load, no store
// overwrites part of it, and the object has not been handed to other code that could run before the load, the load
// yields (the rest of the path of) the stored value. Returns the stored value, the remaining path and the store.
func (m *Model) forwardLocal(root *ssa.Alloc, path string, at ssa.Instruction) (ssa.Value, string, *ssa.Store, bool) {
	fn := at.Parent()
	if fn == nil || root.Parent() != fn {
		return nil, "", nil, false
	}
	ctx := m.Ctx(fn)
	mayPrecede := func(in ssa.Instruction) bool {
		if in.Block() == at.Block() {
			for _, x := range in.Block().Instrs {
				if x == in {
					return true
				}
				if x == at {
					break
				}
			}
			return ctx.reach[in.Block()][in.Block()] // in a loop: a later instruction precedes the next pass
		}
		return ctx.reach[in.Block()][at.Block()]
	}
	var cand *ssa.Store
	var rest string
	var visit func(addr ssa.Value, p string) bool
	visit = func(addr ssa.Value, p string) bool {
		refs := addr.Referrers()
		if refs == nil {
			return false
		}
		for _, r := range *refs {
			switch x := r.(type) {
			case *ssa.FieldAddr:
				if x.X != addr {
					return false
				}
				if !visit(x, p+"."+fieldName(x.X.Type(), x.Field)) {
					return false
				}
			case *ssa.Store:
				if x.Addr != addr {
					// the address itself is stored somewhere: escapes
					if mayPrecede(x) {
						return false
					}
					continue
				}
				switch {
				case p == path || strings.HasPrefix(path, p+"."):
					if cand != nil {
						return false // two writers
					}
					cand, rest = x, strings.TrimPrefix(path, p)
				case strings.HasPrefix(p, path+"."):
					if mayPrecede(x) {
						return false // partly overwritten
					}
				}
			case *ssa.UnOp:
				// loads do not change the object
			case *ssa.DebugRef:
			default:
				// handed to a call, converted to an interface, returned, captured, ...
				if in, ok := r.(ssa.Instruction); ok && mayPrecede(in) {
					return false
				}
			}
		}
		return true
	}
	if !visit(root, "") || cand == nil || !ctx.instrDominates(cand, at) {
		return nil, "", nil, false
	}
	return cand.Val, rest, cand, true
}

// cellValue: ld loads a local variable's cell (an Alloc, or the free variable of a closure bound to one) that is stored
// to exactly once, in the function that declares it, by a store that precedes every closure creation that binds it —
// the usual shape of a variable captured by closures but never reassigned. Returns the stored value.
func cellValue(ld *ssa.UnOp) (ssa.Value, bool) {
	if ld.Op != token.MUL {
		return nil, false
	}
	var cell *ssa.Alloc
	switch a := ld.X.(type) {
	case *ssa.Alloc:
		cell = a
	case *ssa.FreeVar:
		v := ssa.Value(a)
		for d := 0; d < 4 && cell == nil; d++ {
			fv, ok := v.(*ssa.FreeVar)
			if !ok {
				return nil, false
			}
			g := fv.Parent()
			par := g.Parent()
			if par == nil {
				return nil, false
			}
			idx := -1
			for i, x := range g.FreeVars {
				if x == fv {
					idx = i
				}
			}
			var bound ssa.Value
			n := 0
			for _, b := range par.Blocks {
				for _, in := range b.Instrs {
					if mc, ok := in.(*ssa.MakeClosure); ok && mc.Fn == ssa.Value(g) && idx >= 0 && idx < len(mc.Bindings) {
						bound = mc.Bindings[idx]
						n++
					}
				}
			}
			if n != 1 || bound == nil {
				return nil, false
			}
			if al, isAl := bound.(*ssa.Alloc); isAl {
				cell = al
			} else {
				v = bound
			}
		}
	}
	if cell == nil || cell.Referrers() == nil {
		return nil, false
	}
	if _, isStruct := cell.Type().Underlying().(*types.Pointer).Elem().Underlying().(*types.Struct); isStruct {
		return nil, false
	}
	var store *ssa.Store
	var closures []*ssa.MakeClosure
	for _, r := range *cell.Referrers() {
		switch x := r.(type) {
		case *ssa.Store:
			if x.Addr != ssa.Value(cell) || store != nil {
				return nil, false // stored somewhere as a value, or written twice
			}
			store = x
		case *ssa.MakeClosure:
			closures = append(closures, x)
		case *ssa.UnOp, *ssa.DebugRef:
		default:
			return nil, false // its address goes elsewhere
		}
	}
	if store == nil {
		return nil, false
	}
	// no closure that shares the cell writes it, and all of them are created after the store
	var writes func(g *ssa.Function, fv *ssa.FreeVar, d int) bool
	writes = func(g *ssa.Function, fv *ssa.FreeVar, d int) bool {
		if fv.Referrers() == nil || d > 3 {
			return d > 3
		}
		for _, r := range *fv.Referrers() {
			switch x := r.(type) {
			case *ssa.UnOp, *ssa.DebugRef:
			case *ssa.MakeClosure:
				inner, _ := x.Fn.(*ssa.Function)
				for i, bnd := range x.Bindings {
					if bnd == ssa.Value(fv) && inner != nil && i < len(inner.FreeVars) && writes(inner, inner.FreeVars[i], d+1) {
						return true
					}
				}
			default:
				return true
			}
		}
		return false
	}
	for _, mc := range closures {
		g, _ := mc.Fn.(*ssa.Function)
		if g == nil {
			return nil, false
		}
		for i, bnd := range mc.Bindings {
			if bnd == ssa.Value(cell) && i < len(g.FreeVars) && writes(g, g.FreeVars[i], 0) {
				return nil, false
			}
		}
		if !(store.Block() == mc.Block() || store.Block().Dominates(mc.Block())) {
			return nil, false
		}
		if store.Block() == mc.Block() {
			before := false
			for _, in := range store.Block().Instrs {
				if in == ssa.Instruction(store) {
					before = true
				}
				if in == ssa.Instruction(mc) && !before {
					return nil, false
				}
			}
		}
	}
	if ld.Parent() == store.Parent() {
		// a load in the declaring function itself must come after the store
		if ld.Block() == store.Block() {
			for _, in := range ld.Block().Instrs {
				if in == ssa.Instruction(ld) {
					return nil, false
				}
				if in == ssa.Instruction(store) {
					break
				}
			}
		} else if !store.Block().Dominates(ld.Block()) {
			return nil, false
		}
	}
	return store.Val, true
}
