package main

// rule_textdrop.go — R-TEXTDROP (C05): every byte the lexer reads ends up in a token, in a comment, or is a blank
// between code tokens. Reading a byte is a call of readChar. Each direct call site of readChar must lie
//   - at a point where a token is open (after tokenBegins, before newToken, on every path — followed through the
//     lexer's own functions with a summary "token open at return?" per function and entry state), or
//   - in one of the two functions that skip input that is no token: skipWhitespace (blanks in code; R-LEXMODE confines
//     it to code mode) and skipComment (R-TEXT decides where a comment ends), or in New (the priming read).
// A read anywhere else drops a byte of the page: text that should have been emitted disappears.

import (
	"fmt"
	"sort"

	"golang.org/x/tools/go/ssa"
)

func (m *Model) RunTextDrop(s *Sink, rule string) {
	readChar := m.Method("lexer", "Lexer", "readChar")
	tokBegins := m.Method("lexer", "Lexer", "tokenBegins")
	newTok := m.Method("lexer", "Lexer", "newToken")
	nextTok := m.Method("lexer", "Lexer", "NextToken")
	if readChar == nil || tokBegins == nil || newTok == nil || nextTok == nil {
		s.Undecided(rule, "lexer", "-", "readChar / tokenBegins / newToken / NextToken not found")
		return
	}
	skippers := map[string]string{
		"skipWhitespace": "blanks between code tokens",
		"skipComment":    "the inside of a {{-- --}} comment",
		"New":            "the priming read that loads the first character",
		"readChar":       "the reader itself",
	}
	var lexFns []*ssa.Function
	for _, fn := range m.ModFns {
		if fn.Blocks != nil && shortPkg(fnPkgPath(fn)) == "lexer" {
			lexFns = append(lexFns, fn)
		}
	}
	sort.Slice(lexFns, func(i, j int) bool { return fnKey(lexFns[i]) < fnKey(lexFns[j]) })
	isLex := map[*ssa.Function]bool{}
	for _, f := range lexFns {
		isLex[f] = true
	}
	// summary[f][e]: may the token be closed ("outside") when f returns, given it was closed (e=1) / open (e=0) at entry
	summary := map[*ssa.Function]*[2]bool{}
	for _, f := range lexFns {
		summary[f] = &[2]bool{false, true} // identity
	}
	type site struct {
		fn  *ssa.Function
		pos string
	}
	analyse := func(fn *ssa.Function, entryOutside bool, onCall func(g *ssa.Function, outside bool), onRead func(in ssa.Instruction, outside bool)) bool {
		in := map[*ssa.BasicBlock]bool{fn.Blocks[0]: entryOutside}
		reached := map[*ssa.BasicBlock]bool{fn.Blocks[0]: true}
		exitOutside := false
		for changed := true; changed; {
			changed = false
			for _, b := range fn.Blocks {
				if !reached[b] {
					continue
				}
				st := in[b]
				for _, ins := range b.Instrs {
					c, ok := ins.(ssa.CallInstruction)
					if !ok {
						continue
					}
					g := c.Common().StaticCallee()
					switch {
					case g == nil:
					case g == tokBegins:
						st = false
					case g == newTok:
						st = true
					case g == readChar:
						if onRead != nil {
							onRead(ins, st)
						}
					case isLex[g]:
						if onCall != nil {
							onCall(g, st)
						}
						if st {
							st = summary[g][1]
						} else {
							st = summary[g][0]
						}
					}
				}
				if _, isRet := b.Instrs[len(b.Instrs)-1].(*ssa.Return); isRet && st {
					exitOutside = true
				}
				for _, sc := range b.Succs {
					if !reached[sc] || (st && !in[sc]) {
						reached[sc] = true
						in[sc] = in[sc] || st
						changed = true
					}
				}
			}
		}
		return exitOutside
	}
	for iter := 0; iter < 12; iter++ {
		changed := false
		for _, f := range lexFns {
			for e := 0; e < 2; e++ {
				out := analyse(f, e == 1, nil, nil)
				if summary[f][e] != out {
					summary[f][e] = out
					changed = true
				}
			}
		}
		if !changed {
			break
		}
	}
	// entry states that occur
	entry := map[*ssa.Function]*[2]bool{nextTok: {false, true}}
	for iter := 0; iter < 12; iter++ {
		changed := false
		for _, f := range lexFns {
			es := entry[f]
			if es == nil {
				continue
			}
			for e := 0; e < 2; e++ {
				if !es[e] {
					continue
				}
				_, licensed := skippers[canonFnName(f)]
				analyse(f, e == 1, func(g *ssa.Function, outside bool) {
					if entry[g] == nil {
						entry[g] = &[2]bool{}
					}
					i := 0
					if outside && !licensed { // what a skipper may do, the helpers it calls may do for it
						i = 1
					}
					if !entry[g][i] {
						entry[g][i] = true
						changed = true
					}
				}, nil)
			}
		}
		if !changed {
			break
		}
	}
	n := 0
	for _, f := range lexFns {
		if _, ok := skippers[canonFnName(f)]; ok {
			continue
		}
		es := entry[f]
		if es == nil {
			es = &[2]bool{false, true} // not reached from NextToken: judged as if called with no token open
		}
		bad := map[ssa.Instruction]bool{}
		var sites []ssa.Instruction
		seen := map[ssa.Instruction]bool{}
		for e := 0; e < 2; e++ {
			if !es[e] {
				continue
			}
			analyse(f, e == 1, nil, func(in ssa.Instruction, outside bool) {
				if !seen[in] {
					seen[in] = true
					sites = append(sites, in)
				}
				if outside {
					bad[in] = true
				}
			})
		}
		for i, in := range sites {
			n++
			key := fmt.Sprintf("%s|read #%d belongs to a token", fnKey(f), i+1)
			if bad[in] {
				s.Violation(rule, key, m.InstrPos(in), "%s reads a character at %s while no token is open (no tokenBegins since the last newToken on some path) and it is neither skipWhitespace nor skipComment: the character is part of no token and of no comment, so it silently disappears from the page", fnKey(f), m.InstrPos(in))
			} else {
				s.OK(rule, key, m.InstrPos(in), "on every path a token has been begun and not yet built when this character is read")
			}
		}
	}
	var names []string
	for k, v := range skippers {
		names = append(names, k+" ("+v+")")
	}
	sort.Strings(names)
	s.Note(rule, "lexer|functions that may read outside a token", "-", "%v", names)
	if n < 1 {
		s.Undecided(rule, "lexer|readChar sites", "-", "no direct call of readChar in token builders and readers")
	}
}
