package main

// rule_progress.go — R-PROGRESS: every lexer/parser loop consumes input on
// each pass and leaves at end of input (and on sticky tokens); every
// recursion cycle contains a consuming call.

import (
	"fmt"
	"go/constant"
	"go/token"
	"go/types"
	"os"
	"sort"
	"strings"

	"golang.org/x/tools/go/ssa"
)

type loopInfo struct {
	fn     *ssa.Function
	header *ssa.BasicBlock
	body   map[*ssa.BasicBlock]bool
	latch  []*ssa.BasicBlock
	ord    int
}

func naturalLoops(fn *ssa.Function) []*loopInfo {
	byHeader := map[*ssa.BasicBlock]*loopInfo{}
	var order []*ssa.BasicBlock
	for _, b := range fn.Blocks {
		for _, s := range b.Succs {
			if s.Dominates(b) { // back edge b -> s
				li := byHeader[s]
				if li == nil {
					li = &loopInfo{fn: fn, header: s, body: map[*ssa.BasicBlock]bool{s: true}}
					byHeader[s] = li
					order = append(order, s)
				}
				li.latch = append(li.latch, b)
				// body: nodes that reach b without passing s
				stack := []*ssa.BasicBlock{b}
				for len(stack) > 0 {
					x := stack[len(stack)-1]
					stack = stack[:len(stack)-1]
					if li.body[x] {
						continue
					}
					li.body[x] = true
					stack = append(stack, x.Preds...)
				}
			}
		}
	}
	sort.Slice(order, func(i, j int) bool { return order[i].Index < order[j].Index })
	var out []*loopInfo
	for i, h := range order {
		byHeader[h].ord = i + 1
		out = append(out, byHeader[h])
	}
	return out
}

// loopDesc: a stable description of a loop: ordinal + the source text of its exit condition if recognisable.
func (m *Model) loopDesc(li *loopInfo) string {
	d := fmt.Sprintf("loop#%d", li.ord)
	// first If in header chain that leaves the loop
	for _, b := range []*ssa.BasicBlock{li.header} {
		if iff, ok := b.Instrs[len(b.Instrs)-1].(*ssa.If); ok {
			d += "(cond: " + valueDesc(iff.Cond) + ")"
		}
	}
	return d
}

// ---------------------------------------------------------------------------
// Consumer summaries

type consumerInfo struct {
	m         *Model
	callPoint func(c ssa.CallInstruction) bool      // executing this call is a pass point
	okPoint   func(c *ssa.Call) bool                // the success (true / non-nil) edge of this call's result is a pass point
	failPoint func(c *ssa.Call) bool                // the failure (false / nil) edge of this call's result is a pass point (optional)
	always    map[*ssa.Function]bool                // every path entry->return passes a point
	onOK      map[*ssa.Function]bool                // every path to a non-nil/true return passes a point
	onFail    map[*ssa.Function]bool                // every path to a return whose bool verdict may be false passes a point
	may       map[*ssa.Function]bool                // contains (transitively) a point
	strict    bool                                  // when set, calls to may-functions count as points
	errAware  bool                                  // a function whose first result is an error succeeds when it returns nil
	edgePoint func(pred, succ *ssa.BasicBlock) bool // taking this edge is a pass point (optional)
	constMemo map[ssa.CallInstruction]bool
}

// errorLike: the predeclared error interface, or a pointer to a module type with an Error() method (*fail.Error).
func errorLike(t types.Type) bool {
	if types.Identical(t, types.Universe.Lookup("error").Type()) {
		return true
	}
	if p, ok := t.(*types.Pointer); ok {
		if nt, isN := p.Elem().(*types.Named); isN && nt.Obj().Pkg() != nil && strings.HasPrefix(nt.Obj().Pkg().Path(), modPath) {
			ms := types.NewMethodSet(t)
			for i := 0; i < ms.Len(); i++ {
				if ms.At(i).Obj().Name() == "Error" {
					return true
				}
			}
		}
	}
	return false
}

// constCallPasses: the call has constant arguments and, evaluated with them, the callee passes a point on the
// (single, fully determined) path to its return — e.g. skipChars(len("{{")) runs its loop body twice.
func (ci *consumerInfo) constCallPasses(c ssa.CallInstruction, callee *ssa.Function) bool {
	if ci.constMemo == nil {
		ci.constMemo = map[ssa.CallInstruction]bool{}
	}
	if v, ok := ci.constMemo[c]; ok {
		return v
	}
	ci.constMemo[c] = false
	args := make([]any, len(c.Common().Args))
	anyConst := false
	for i, a := range c.Common().Args {
		if k, ok := a.(*ssa.Const); ok && k.Value != nil {
			args[i] = k.Value
			anyConst = true
		}
	}
	if !anyConst || len(args) != len(callee.Params) {
		return false
	}
	passed := false
	ip := &Interp{m: ci.m}
	ip.event = func(x ssa.CallInstruction, depth int) bool {
		if ci.callPoint(x) {
			passed = true
		}
		return false
	}
	ip.Run(callee, args)
	res := passed // the event lies on the determined prefix of the only feasible path, whatever follows
	ci.constMemo[c] = res
	return res
}

func (m *Model) newConsumerInfo(base []*ssa.Function, expect *ssa.Function, universe []*ssa.Function) *consumerInfo {
	isBase := map[*ssa.Function]bool{}
	for _, b := range base {
		isBase[b] = true
	}
	ci := m.newPassInfo(
		func(c ssa.CallInstruction) bool { sc := c.Common().StaticCallee(); return sc != nil && isBase[sc] },
		func(c *ssa.Call) bool { sc := c.Call.StaticCallee(); return sc != nil && expect != nil && sc == expect },
		universe, append(append([]*ssa.Function{}, base...), expect))
	for _, b := range base {
		ci.may[b] = true // the consuming primitive itself
	}
	return ci
}

// newPassInfo computes must-pass-through summaries for arbitrary point predicates.
// pendingEdgePoint: the edge hook of the next newPassInfo (it must be in place before the summaries are computed).
var pendingEdgePoint func(pred, succ *ssa.BasicBlock) bool

// newPassInfoOpts: an error-aware pass info with an edge hook.
func (m *Model) newPassInfoOpts(callPoint func(ssa.CallInstruction) bool, okPoint func(*ssa.Call) bool, universe []*ssa.Function, edgePoint func(pred, succ *ssa.BasicBlock) bool) *consumerInfo {
	pendingEdgePoint = edgePoint
	return m.newPassInfo(callPoint, okPoint, universe, nil, "erraware")
}

func (m *Model) newPassInfo(callPoint func(ssa.CallInstruction) bool, okPoint func(*ssa.Call) bool, universe []*ssa.Function, skip []*ssa.Function, opts ...string) *consumerInfo {
	ci := &consumerInfo{m: m, callPoint: callPoint, okPoint: okPoint, always: map[*ssa.Function]bool{}, onOK: map[*ssa.Function]bool{}, onFail: map[*ssa.Function]bool{}, may: map[*ssa.Function]bool{}}
	for _, o := range opts {
		if o == "erraware" {
			ci.errAware = true
		}
	}
	ci.edgePoint = pendingEdgePoint
	pendingEdgePoint = nil
	skipSet := map[*ssa.Function]bool{}
	for _, f := range skip {
		if f != nil {
			skipSet[f] = true
		}
	}
	for changed := true; changed; {
		changed = false
		for _, fn := range universe {
			if ci.may[fn] || fn.Blocks == nil {
				continue
			}
			for _, b := range fn.Blocks {
				for _, in := range b.Instrs {
					if c, ok := in.(ssa.CallInstruction); ok {
						hit := callPoint(c)
						if call, isCall := in.(*ssa.Call); isCall && okPoint(call) {
							hit = true
						}
						for _, cal := range ci.calleesOf(c) {
							if ci.may[cal] {
								hit = true
							}
						}
						if hit && !ci.may[fn] {
							ci.may[fn] = true
							changed = true
						}
					}
				}
			}
		}
	}
	isRet := func(b *ssa.BasicBlock) bool { _, ok := b.Instrs[len(b.Instrs)-1].(*ssa.Return); return ok }
	for changed := true; changed; {
		changed = false
		for _, fn := range universe {
			if fn.Blocks == nil || skipSet[fn] {
				continue
			}
			if !ci.always[fn] && !ci.pathAvoiding(fn, fn.Blocks[0], 0, isRet, nil) {
				ci.always[fn] = true
				ci.onOK[fn] = true
				changed = true
			}
			if !ci.onOK[fn] && !ci.pathAvoiding(fn, fn.Blocks[0], 0, ci.successReturn, nil) {
				ci.onOK[fn] = true
				changed = true
			}
			if !ci.onFail[fn] && verdictIndex(fn) >= 0 && !ci.pathAvoiding(fn, fn.Blocks[0], 0, ci.failureReturn, nil) {
				ci.onFail[fn] = true
				changed = true
			}
		}
	}
	return ci
}

// failureReturn: a return whose bool verdict (the last bool of several results) may be false: the constant false, or a
// value that is not known — except the forwarded verdict of a callee that passes a point whenever it reports false.
func (ci *consumerInfo) failureReturn(b *ssa.BasicBlock) bool {
	r, ok := b.Instrs[len(b.Instrs)-1].(*ssa.Return)
	if !ok {
		return false
	}
	vi := verdictIndex(b.Parent())
	if vi < 0 || vi >= len(r.Results) {
		return false
	}
	switch v := r.Results[vi].(type) {
	case *ssa.Const:
		return v.Value != nil && v.Value.Kind() == constant.Bool && !constant.BoolVal(v.Value)
	case *ssa.Extract:
		if call, isCall := v.Tuple.(*ssa.Call); isCall && ci.allCallees(call, func(f *ssa.Function) bool { return ci.onFail[f] }) {
			return false
		}
	}
	return true
}

// successReturn: a successful return that does not merely forward the result
// of a callee which itself passes a point on every successful return.
func (ci *consumerInfo) successReturn(b *ssa.BasicBlock) bool {
	if ci.errAware {
		if r, ok := b.Instrs[len(b.Instrs)-1].(*ssa.Return); ok && len(r.Results) >= 1 {
			last := len(r.Results) - 1
			if errorLike(b.Parent().Signature.Results().At(last).Type()) {
				ev := r.Results[last]
				if k, isK := ev.(*ssa.Const); isK {
					return k.IsNil() // `return …, nil`: no error
				}
				// a computed error: non-nil when it was just built, or is known non-nil here; otherwise it may be nil
				// (`return filepath.Abs(p)` succeeds whenever Abs does)
				inner := ev
				if mi, isMI := inner.(*ssa.MakeInterface); isMI {
					inner = mi.X
				}
				if c, isC := inner.(*ssa.Call); isC && c.Call.StaticCallee() != nil {
					switch fnFullName(c.Call.StaticCallee()) {
					case "errors.New", "fmt.Errorf":
						return false
					}
					if shortPkg(fnPkgPath(c.Call.StaticCallee())) == "fail" {
						return false
					}
				}
				for _, f := range expandFacts(factsAt(b)) {
					if nonNilFact(f, ev) {
						return false
					}
				}
				return true
			}
		}
	}
	if !isSuccessReturn(b) {
		return false
	}
	r := b.Instrs[len(b.Instrs)-1].(*ssa.Return)
	if len(r.Results) == 0 {
		return true
	}
	v := r.Results[0]
	for i := 0; i < 3; i++ {
		switch x := v.(type) {
		case *ssa.MakeInterface:
			v = x.X
			continue
		case *ssa.ChangeInterface:
			v = x.X
			continue
		}
		break
	}
	if call, ok := v.(*ssa.Call); ok {
		if ci.allCallees(call, func(f *ssa.Function) bool { return ci.onOK[f] }) {
			return false
		}
		if ci.okPoint(call) {
			return false // `return p.expectPeek(X)`: this return succeeds exactly when the point's success edge is taken
		}
	}
	return true
}

// isSuccessReturn: a return that does not signal failure. With a bool among the results (the last one is the
// verdict: `return x, true`) failure is the constant false there; otherwise failure is a constant nil/false first result.
func isSuccessReturn(b *ssa.BasicBlock) bool {
	r, ok := b.Instrs[len(b.Instrs)-1].(*ssa.Return)
	if !ok || len(r.Results) == 0 {
		return ok
	}
	if vi := verdictIndex(b.Parent()); vi >= 0 && len(r.Results) > 1 {
		if c, isC := r.Results[vi].(*ssa.Const); isC && c.Value != nil && c.Value.Kind() == constant.Bool && !constant.BoolVal(c.Value) {
			return false
		}
		return true
	}
	if c, isC := r.Results[0].(*ssa.Const); isC && (c.IsNil() || (c.Value != nil && c.Value.Kind() == constant.Bool && !constant.BoolVal(c.Value))) {
		return false
	}
	return true
}

// verdictIndex: the index of the last bool result of a multi-result function (-1 if none).
func verdictIndex(fn *ssa.Function) int {
	rs := fn.Signature.Results()
	if rs.Len() < 2 {
		return -1
	}
	for i := rs.Len() - 1; i >= 0; i-- {
		if isBoolT(rs.At(i).Type()) {
			return i
		}
	}
	return -1
}

// verdictCall: cond is the bool verdict of a call — the call itself (single bool result) or the extraction of the
// verdict component of a tuple result.
func verdictCall(cond ssa.Value) *ssa.Call {
	switch x := cond.(type) {
	case *ssa.Call:
		if isBoolT(x.Type()) {
			return x
		}
	case *ssa.Extract:
		if c, ok := x.Tuple.(*ssa.Call); ok {
			if sc := c.Call.StaticCallee(); sc != nil && verdictIndex(sc) == x.Index {
				return c
			}
		}
	}
	return nil
}

// consumerPoints: instructions after which input has been consumed, and blocks
// entered only after consumption (success edges).
func (ci *consumerInfo) blockConsumes(b *ssa.BasicBlock, from int) bool {
	for i := from; i < len(b.Instrs); i++ {
		if c, ok := b.Instrs[i].(ssa.CallInstruction); ok {
			if ci.callPoint(c) {
				return true
			}
			if call, isCall := b.Instrs[i].(*ssa.Call); isCall && ci.strict && ci.okPoint(call) {
				return true
			}
			if ci.allCallees(c, func(cal *ssa.Function) bool {
				return ci.always[cal] || (ci.strict && ci.may[cal]) || (ci.may[cal] && ci.constCallPasses(c, cal))
			}) {
				return true
			}
		}
	}
	return false
}

func (ci *consumerInfo) calleesOf(c ssa.CallInstruction) []*ssa.Function {
	if sc := c.Common().StaticCallee(); sc != nil {
		return []*ssa.Function{sc}
	}
	if c.Common().IsInvoke() {
		return nil
	}
	// a function value chosen at run time (`parse := p.a; if c { parse = p.b }; parse(x)`): the module functions the
	// call graph finds, bound-method wrappers looked through; nil if any target is outside the module
	var out []*ssa.Function
	for _, cal := range ci.m.calleesOf(c) {
		f := cal
		if f.Synthetic != "" {
			if o, ok := f.Object().(*types.Func); ok {
				if real := ci.m.Prog.FuncValue(o); real != nil {
					f = real
				}
			}
		}
		if !ci.m.InModule(f) || f.Blocks == nil {
			return nil
		}
		out = append(out, f)
	}
	return out
}

// allCallees: predicate holds for every possible callee of the call (and there is at least one).
func (ci *consumerInfo) allCallees(c ssa.CallInstruction, pred func(*ssa.Function) bool) bool {
	cs := ci.calleesOf(c)
	if len(cs) == 0 {
		return false
	}
	for _, f := range cs {
		if !pred(f) {
			return false
		}
	}
	return true
}

// edgeConsumes: taking edge pred->succ implies consumption: the true edge of
// an expectPeek/onOK bool result, or the non-nil edge of an onOK call result.
func (ci *consumerInfo) edgeConsumes(pred, succ *ssa.BasicBlock) bool {
	if ci.edgePoint != nil && ci.edgePoint(pred, succ) {
		return true
	}
	for _, f := range expandFacts(edgeFact(pred, succ)) {
		if vc := verdictCall(f.Cond); vc != nil {
			if f.Holds && ci.okPoint(vc) {
				return true
			}
			if !f.Holds && ci.failPoint != nil && ci.failPoint(vc) {
				return true
			}
			if f.Holds && ci.allCallees(vc, func(fn *ssa.Function) bool { return ci.onOK[fn] }) {
				return true
			}
			if !f.Holds && ci.allCallees(vc, func(fn *ssa.Function) bool { return ci.onFail[fn] }) {
				return true // `tok, ok := scan(); if !ok { again }`: the callee has consumed whenever it says "not yet"
			}
			continue
		}
		// `ok = p.a()` on one path, `ok = p.b()` on the other, then `if !ok`: whichever call was made has failed
		if phi, isPhi := f.Cond.(*ssa.Phi); isPhi && !f.Holds && ci.failPoint != nil {
			all := len(phi.Edges) > 0
			for _, e := range phi.Edges {
				if k, isK := e.(*ssa.Const); isK && k.Value != nil && k.Value.String() == "true" {
					continue
				}
				if vc := verdictCall(e); vc == nil || !ci.failPoint(vc) {
					all = false
				}
			}
			if all {
				return true
			}
		}
		if phi, isPhi := f.Cond.(*ssa.Phi); isPhi && f.Holds {
			all := len(phi.Edges) > 0
			for _, e := range phi.Edges {
				if k, isK := e.(*ssa.Const); isK && k.Value != nil && k.Value.String() == "false" {
					continue
				}
				vc := verdictCall(e)
				if vc == nil || !(ci.okPoint(vc) || ci.allCallees(vc, func(fn *ssa.Function) bool { return ci.onOK[fn] })) {
					all = false
				}
			}
			if all {
				return true // whichever call was made has succeeded
			}
		}
		switch c := f.Cond.(type) {
		case *ssa.BinOp:
			if c.Op != token.EQL && c.Op != token.NEQ {
				continue
			}
			var call *ssa.Call
			var other ssa.Value
			if x, ok := storedCall(c.X).(*ssa.Call); ok {
				call, other = x, c.Y
			} else if y, ok := storedCall(c.Y).(*ssa.Call); ok {
				call, other = y, c.X
			}
			if ci.errAware && call == nil {
				// `prog, err := load(…); if err != nil { return }`: the error component of a tuple result
				for _, side := range []ssa.Value{c.X, c.Y} {
					if ex, isEx := side.(*ssa.Extract); isEx {
						if tc, isTC := ex.Tuple.(*ssa.Call); isTC && errorLike(ex.Type()) {
							other := c.Y
							if side == c.Y {
								other = c.X
							}
							if k, isK := other.(*ssa.Const); isK && k.IsNil() && (c.Op == token.EQL) == f.Holds && ci.allCallees(tc, func(fn *ssa.Function) bool { return ci.onOK[fn] }) {
								return true
							}
						}
					}
				}
			}
			if call == nil {
				continue
			}
			k, ok := other.(*ssa.Const)
			if !ok || !k.IsNil() {
				continue
			}
			if ci.errAware && errorLike(call.Type()) {
				if (c.Op == token.EQL) == f.Holds && ci.allCallees(call, func(fn *ssa.Function) bool { return ci.onOK[fn] }) {
					return true // `if err := bind(...); err != nil { return }`: past it, bind has succeeded
				}
				continue
			}
			if (c.Op == token.NEQ) == f.Holds && ci.allCallees(call, func(fn *ssa.Function) bool { return ci.onOK[fn] }) {
				return true
			}
			if ci.failPoint != nil && ci.failPoint(call) && (c.Op == token.EQL) == f.Holds {
				return true // the nil edge of a callee that has recorded an error whenever it returns nil
			}
		}
	}
	return false
}

// storedCall resolves `x.f = call(); if x.f == nil` to the call: v is a load of a field of a
// function-local allocation whose only store in the function, in the same block before the load, is a call result.
func storedCall(v ssa.Value) ssa.Value {
	ld, ok := v.(*ssa.UnOp)
	if !ok || ld.Op != token.MUL {
		return v
	}
	fa, ok := ld.X.(*ssa.FieldAddr)
	if !ok {
		return v
	}
	if _, isAlloc := fa.X.(*ssa.Alloc); !isAlloc {
		return v
	}
	var only *ssa.Store
	n := 0
	for _, b := range ld.Parent().Blocks {
		for _, in := range b.Instrs {
			st, isSt := in.(*ssa.Store)
			if !isSt {
				continue
			}
			if fa2, isFA := st.Addr.(*ssa.FieldAddr); isFA && fa2.X == fa.X && fa2.Field == fa.Field {
				only = st
				n++
			}
		}
	}
	if n != 1 || only.Block() != ld.Block() {
		return v
	}
	// between the store and the load nothing else in the block may write (no calls, no stores)
	started := false
	for _, in := range ld.Block().Instrs {
		if in == ssa.Instruction(only) {
			started = true
			continue
		}
		if in == ssa.Instruction(ld) {
			break
		}
		if !started {
			continue
		}
		switch in.(type) {
		case *ssa.Call, *ssa.Store, *ssa.Go, *ssa.Defer, *ssa.MapUpdate:
			return v
		}
	}
	if !started {
		return v
	}
	return only.Val
}

func isBoolT(t types.Type) bool {
	b, ok := t.Underlying().(*types.Basic)
	return ok && b.Kind() == types.Bool
}

// pathAvoiding: is there a path from (start, idx) to a block satisfying goal
// that passes no consumer point? within restricts the search to a block set.
func (ci *consumerInfo) pathAvoiding(fn *ssa.Function, start *ssa.BasicBlock, idx int, goal func(*ssa.BasicBlock) bool, within map[*ssa.BasicBlock]bool) bool {
	seen := map[*ssa.BasicBlock]bool{}
	type item struct {
		b    *ssa.BasicBlock
		from int
	}
	stack := []item{{start, idx}}
	first := true
	for len(stack) > 0 {
		it := stack[len(stack)-1]
		stack = stack[:len(stack)-1]
		if !first && seen[it.b] {
			continue
		}
		if !first {
			seen[it.b] = true
		}
		first = false
		if ci.blockConsumes(it.b, it.from) {
			continue
		}
		if goal(it.b) {
			return true
		}
		for _, s := range it.b.Succs {
			if within != nil && !within[s] {
				continue
			}
			if ci.edgeConsumes(it.b, s) {
				continue
			}
			stack = append(stack, item{s, 0})
		}
	}
	return false
}

// ---------------------------------------------------------------------------
// Finite-loop idioms

// finiteIdiom: range loops over slices/strings/maps and counted loops whose
// bound is loop-invariant terminate without consuming input.
func finiteIdiom(li *loopInfo) string {
	for b := range li.body {
		for _, in := range b.Instrs {
			if _, ok := in.(*ssa.Next); ok {
				return "range over map/string iterator"
			}
		}
	}
	// an exit test comparing an induction variable with a loop-invariant bound
	for b := range li.body {
		iff, ok := b.Instrs[len(b.Instrs)-1].(*ssa.If)
		if !ok {
			continue
		}
		exits := !li.body[b.Succs[0]] || !li.body[b.Succs[1]]
		if !exits {
			continue
		}
		bo, ok := iff.Cond.(*ssa.BinOp)
		if !ok {
			continue
		}
		switch bo.Op {
		case token.LSS, token.LEQ, token.GTR, token.GEQ:
		default:
			continue
		}
		for _, pair := range [][2]ssa.Value{{bo.X, bo.Y}, {bo.Y, bo.X}} {
			if isInduction(pair[0], li) && isInvariant(pair[1], li) {
				return "counted loop: induction variable compared with a loop-invariant bound"
			}
		}
	}
	return ""
}

func isInduction(v ssa.Value, li *loopInfo) bool {
	// v is phi(init, v+c) in the header, or phi+c
	if bo, ok := v.(*ssa.BinOp); ok && (bo.Op == token.ADD || bo.Op == token.SUB) {
		if _, isC := bo.Y.(*ssa.Const); isC {
			v = bo.X
		}
	}
	phi, ok := v.(*ssa.Phi)
	if !ok || phi.Block() != li.header {
		return false
	}
	steps := 0
	for i, e := range phi.Edges {
		if !li.body[phi.Block().Preds[i]] {
			continue // entry edge
		}
		bo, ok := e.(*ssa.BinOp)
		if !ok || (bo.Op != token.ADD && bo.Op != token.SUB) {
			return false
		}
		c, isC := bo.Y.(*ssa.Const)
		if !isC || c.Value == nil || constant.Sign(c.Value) == 0 {
			return false
		}
		if bo.X != ssa.Value(phi) {
			return false
		}
		steps++
	}
	return steps > 0
}

func isInvariant(v ssa.Value, li *loopInfo) bool {
	switch x := v.(type) {
	case *ssa.Const, *ssa.Parameter, *ssa.Global:
		return true
	case ssa.Instruction:
		if !li.body[x.Block()] {
			return true
		}
		// recomputed in every pass from loop-invariant values: the length of a string or slice value (part of the
		// value itself), arithmetic on invariants
		switch y := x.(type) {
		case *ssa.Call:
			if bi, ok := y.Call.Value.(*ssa.Builtin); ok && (bi.Name() == "len" || bi.Name() == "cap") && len(y.Call.Args) == 1 {
				switch y.Call.Args[0].Type().Underlying().(type) {
				case *types.Basic, *types.Slice:
					return isInvariant(y.Call.Args[0], li)
				}
			}
		case *ssa.BinOp:
			return isInvariant(y.X, li) && isInvariant(y.Y, li)
		case *ssa.Convert:
			return isInvariant(y.X, li)
		}
		return false
	}
	return false
}

// ---------------------------------------------------------------------------
// Constant interpretation of pure byte predicates (isIdent(0) etc.)

func (m *Model) evalPure(fn *ssa.Function, args []constant.Value) (constant.Value, bool) {
	return m.evalPureHook(fn, args, nil)
}

// evalPureHook: like evalPure; resolve supplies values for loads and calls the interpreter cannot compute itself.
func (m *Model) evalPureHook(fn *ssa.Function, args []constant.Value, resolve func(ssa.Value) (constant.Value, bool)) (constant.Value, bool) {
	if fn.Blocks == nil || len(fn.Params) != len(args) {
		return nil, false
	}
	ip := &Interp{m: m}
	if resolve != nil {
		ip.load = func(v *ssa.UnOp, dirty bool) (any, bool) {
			if r, ok := resolve(v); ok {
				return r, true
			}
			return nil, false
		}
		ip.call = func(c *ssa.Call, _ []any) (any, bool) {
			if r, ok := resolve(c); ok {
				return r, true
			}
			return nil, false
		}
	}
	in := make([]any, len(args))
	for i, a := range args {
		if a != nil {
			in[i] = a
		}
	}
	res, ok := ip.Run(fn, in)
	rc, isC := res.(constant.Value)
	if !ok || !isC {
		if os.Getenv("TWDEBUG") != "" {
			fmt.Fprintf(os.Stderr, "evalPure %s: ok=%v res=%#v stuck=%q\n", fnKey(fn), ok, res, ip.stuck)
		}
		return nil, false
	}
	return rc, true
}

func (m *Model) constOf(v ssa.Value, env map[ssa.Value]constant.Value) (constant.Value, bool) {
	if c, ok := v.(*ssa.Const); ok && c.Value != nil {
		return c.Value, true
	}
	x, ok := env[v]
	return x, ok
}

func foldBinOp(op token.Token, l, r constant.Value) (constant.Value, bool) {
	switch op {
	case token.EQL, token.NEQ, token.LSS, token.LEQ, token.GTR, token.GEQ:
		if l.Kind() == constant.Bool {
			if op == token.EQL {
				return constant.MakeBool(constant.BoolVal(l) == constant.BoolVal(r)), true
			}
			if op == token.NEQ {
				return constant.MakeBool(constant.BoolVal(l) != constant.BoolVal(r)), true
			}
			return nil, false
		}
		return constant.MakeBool(constant.Compare(l, op, r)), true
	case token.ADD, token.SUB, token.MUL:
		return constant.BinaryOp(l, op, r), true
	case token.LAND, token.AND:
		if l.Kind() == constant.Bool {
			return constant.MakeBool(constant.BoolVal(l) && constant.BoolVal(r)), true
		}
	case token.LOR, token.OR:
		if l.Kind() == constant.Bool {
			return constant.MakeBool(constant.BoolVal(l) || constant.BoolVal(r)), true
		}
	}
	// bit sets of small non-negative integers (flag words): exact whatever the width of the type
	if l.Kind() == constant.Int && r.Kind() == constant.Int && constant.Sign(l) >= 0 && constant.Sign(r) >= 0 {
		switch op {
		case token.AND, token.OR, token.XOR, token.AND_NOT:
			return constant.BinaryOp(l, op, r), true
		}
	}
	return nil, false
}

// ---------------------------------------------------------------------------
// Stable-state exit analysis

// condEval evaluates a branch condition in a stable input state: (known, value).
type condEval func(v ssa.Value) (bool, bool)

// exitsInState: starting at the loop header with the given evaluator, does every
// path leave the loop (exit edge or return) before reaching the header again?
// Returns a witness path description if not.
func exitsInState(li *loopInfo, ev condEval) (bool, string) {
	type item struct {
		b, pred *ssa.BasicBlock
		path    []int
	}
	// a branch on a short-circuit phi (`a && b` compiled to phi [pred1: false, pred2: b]) is decided by the edge the
	// path came in on: such blocks are visited once per predecessor
	phiCond := func(b *ssa.BasicBlock) *ssa.Phi {
		if iff, ok := b.Instrs[len(b.Instrs)-1].(*ssa.If); ok {
			if ph, isPhi := iff.Cond.(*ssa.Phi); isPhi && ph.Block() == b {
				return ph
			}
		}
		return nil
	}
	seen := map[[2]*ssa.BasicBlock]bool{}
	stack := []item{{li.header, nil, []int{li.header.Index}}}
	first := true
	for len(stack) > 0 {
		it := stack[len(stack)-1]
		stack = stack[:len(stack)-1]
		if !first && it.b == li.header {
			return false, fmt.Sprint(it.path)
		}
		key := [2]*ssa.BasicBlock{it.b, nil}
		ph := phiCond(it.b)
		if ph != nil {
			key[1] = it.pred
		}
		if seen[key] {
			continue
		}
		seen[key] = true
		first = false
		last := it.b.Instrs[len(it.b.Instrs)-1]
		var succs []*ssa.BasicBlock
		switch t := last.(type) {
		case *ssa.If:
			cond := t.Cond
			if ph != nil && it.pred != nil {
				for i, p := range it.b.Preds {
					if p == it.pred && i < len(ph.Edges) {
						cond = ph.Edges[i]
					}
				}
			}
			known, val := evalCond(cond, ev, it.b)
			if known {
				if val {
					succs = []*ssa.BasicBlock{it.b.Succs[0]}
				} else {
					succs = []*ssa.BasicBlock{it.b.Succs[1]}
				}
			} else {
				succs = it.b.Succs
			}
		case *ssa.Jump:
			succs = it.b.Succs
		default:
			continue // return / panic: leaves the loop
		}
		for _, s := range succs {
			if !li.body[s] {
				continue // exit edge
			}
			stack = append(stack, item{s, it.b, append(append([]int{}, it.path...), s.Index)})
		}
	}
	return true, ""
}

// evalCond handles !x and short-circuit phis on top of the state evaluator.
func evalCond(v ssa.Value, ev condEval, at *ssa.BasicBlock) (bool, bool) {
	if u, ok := v.(*ssa.UnOp); ok && u.Op == token.NOT {
		k, val := evalCond(u.X, ev, at)
		return k, !val
	}
	if c, ok := v.(*ssa.Const); ok && c.Value != nil && c.Value.Kind() == constant.Bool {
		return true, constant.BoolVal(c.Value)
	}
	return ev(v)
}

// ---------------------------------------------------------------------------
// The rule

type progressCtx struct {
	m       *Model
	s       *Sink
	rule    string
	lexCI   *consumerInfo
	parCI   *consumerInfo
	pm      *prattModel
	sticky  map[int64]string // token value -> why
	lexFns  []*ssa.Function
	parFns  []*ssa.Function
	tokName map[int64]string
}

func (m *Model) RunProgress(s *Sink, rule string) {
	pc := &progressCtx{m: m, s: s, rule: rule, sticky: map[int64]string{}}
	for _, fn := range m.ModFns {
		if fn.Blocks == nil {
			continue
		}
		switch shortPkg(fnPkgPath(fn)) {
		case "lexer":
			pc.lexFns = append(pc.lexFns, fn)
		case "parser":
			pc.parFns = append(pc.parFns, fn)
		}
	}
	readChar := m.Method("lexer", "Lexer", "readChar")
	nextToken := m.Method("parser", "Parser", "nextToken")
	expectPeek := m.Method("parser", "Parser", "expectPeek")
	if readChar == nil || nextToken == nil || expectPeek == nil {
		s.Undecided(rule, "anchors", "-", "readChar / nextToken / expectPeek not found: the consuming primitives of the lexer and parser are the base of this rule")
		return
	}
	pc.lexCI = m.newConsumerInfo([]*ssa.Function{readChar}, nil, pc.lexFns)
	pc.parCI = m.newConsumerInfo([]*ssa.Function{nextToken}, expectPeek, pc.parFns)
	pc.pm = m.extractPratt()
	pc.tokName = pc.pm.tokName
	// nextToken must pull exactly one token from the lexer
	pc.checkNextToken(nextToken)
	pc.computeSticky()
	pc.lexerLoops()
	pc.parserLoops()
	pc.recursion("lexer", pc.lexFns, pc.lexCI)
	pc.recursion("parser", pc.parFns, pc.parCI)
}

func (pc *progressCtx) checkNextToken(nt *ssa.Function) {
	n := 0
	for _, b := range nt.Blocks {
		for _, in := range b.Instrs {
			if c, ok := in.(*ssa.Call); ok {
				if sc := c.Call.StaticCallee(); sc != nil && canonFnName(sc) == "NextToken" && inPkg(sc, "lexer") {
					n++
				} else if c.Call.IsInvoke() && c.Call.Method.Name() == "NextToken" {
					// through an interface the parser declares for its token source: every implementation the call
					// graph finds must be the lexer's
					all, any := true, false
					for _, cal := range pc.m.calleesOf(c) {
						any = true
						if !(canonFnName(cal) == "NextToken" && inPkg(cal, "lexer")) {
							all = false
						}
					}
					if all && any {
						n++
					}
				}
			}
		}
	}
	key := "parser.(*Parser).nextToken|pulls one lexer token"
	if n == 1 && len(nt.Blocks) == 1 {
		pc.s.OK(pc.rule, key, pc.m.Pos(nt.Pos()), "nextToken is straight-line and calls (*Lexer).NextToken exactly once")
	} else {
		pc.s.Undecided(pc.rule, key, pc.m.Pos(nt.Pos()), "nextToken is expected to be straight-line with exactly one NextToken call (found %d calls, %d blocks)", n, len(nt.Blocks))
	}
}

// computeSticky: token types the lexer can return without consuming input on a
// path that contains no consuming call at all.
func (pc *progressCtx) computeSticky() {
	m := pc.m
	nt := m.Method("lexer", "Lexer", "NextToken")
	newTok := m.Method("lexer", "Lexer", "newToken")
	if nt == nil || newTok == nil {
		pc.s.Undecided(pc.rule, "sticky-anchors", "-", "NextToken/newToken not found")
		return
	}
	// A token type is sticky if some token constructor returns it on a path that,
	// within the constructing function, passes no call that may consume input
	// (illegalToken, the end-of-input branch of NextToken). What NextToken does
	// before entering the constructor (skipping whitespace) can consume nothing.
	pc.lexCI.strict = true
	defer func() { pc.lexCI.strict = false }()
	reach := m.Reach([]*ssa.Function{nt})
	for _, g := range pc.lexFns {
		if _, ok := reach[g]; !ok {
			continue
		}
		for _, b := range g.Blocks {
			for i, in := range b.Instrs {
				c, ok := in.(*ssa.Call)
				if !ok || c.Call.StaticCallee() != newTok {
					continue
				}
				k, ok := c.Call.Args[1].(*ssa.Const)
				if !ok {
					continue
				}
				target, idx := b, i
				if pc.lexCI.pathAvoiding(g, g.Blocks[0], 0, func(x *ssa.BasicBlock) bool {
					return x == target && !pc.lexCI.blockConsumesBefore(x, idx)
				}, nil) {
					if _, dup := pc.sticky[k.Int64()]; !dup {
						pc.sticky[k.Int64()] = fmt.Sprintf("%s builds %s at %s on a path that calls nothing that can consume input", fnKey(g), pc.tokName[k.Int64()], m.InstrPos(in))
					}
				}
			}
		}
	}
	// tokens built from a non-constant type (identifier/number/string readers) always follow a consuming reader; not sticky
	var names []string
	for v := range pc.sticky {
		names = append(names, pc.tokName[v])
	}
	sort.Strings(names)
	if _, hasEOF := pc.sticky[pc.pm.tokVal["EOF"]]; !hasEOF {
		pc.s.Undecided(pc.rule, "sticky-tokens", "-", "EOF was not found to be returned without consuming input; the end-of-input model of this rule does not match the lexer")
		return
	}
	pc.s.OK(pc.rule, "sticky-tokens", "-", "tokens the lexer can return forever without consuming input: %v (every parser loop must leave in the state cur=peek=T for each)", names)
}

func (ci *consumerInfo) blockConsumesBefore(b *ssa.BasicBlock, idx int) bool {
	for i := 0; i < idx && i < len(b.Instrs); i++ {
		if c, ok := b.Instrs[i].(ssa.CallInstruction); ok {
			if ci.callPoint(c) {
				return true
			}
			if call, isCall := b.Instrs[i].(*ssa.Call); isCall && ci.strict && ci.okPoint(call) {
				return true
			}
			for _, cal := range ci.calleesOf(c) {
				if ci.always[cal] || (ci.strict && ci.may[cal]) {
					return true
				}
				if ci.may[cal] && ci.constCallPasses(c, cal) {
					return true
				}
			}
		}
	}
	return false
}

func (pc *progressCtx) lexerLoops() {
	m := pc.m
	for _, fn := range pc.lexFns {
		for _, li := range naturalLoops(fn) {
			key := fmt.Sprintf("%s|%s", fnKey(fn), m.loopDesc(li))
			pos := m.InstrPos(li.header.Instrs[len(li.header.Instrs)-1])
			if why := finiteIdiom(li); why != "" {
				pc.s.OK(pc.rule, key+" terminates", pos, "%s", why)
				continue
			}
			// progress
			noProgress := false
			for _, l := range li.latch {
				latch := l
				if pc.lexCI.pathAvoiding(fn, li.header, 0, func(b *ssa.BasicBlock) bool { return b == latch }, li.body) {
					// the latch block itself may consume, or the edge back to the header may be one that is only taken
					// after consumption (`tok, ok := scan(); if ok { return }` with a scan that has consumed whenever it
					// says "not yet")
					if !pc.lexCI.blockConsumes(latch, 0) && !pc.lexCI.edgeConsumes(latch, li.header) {
						noProgress = true
					}
				}
			}
			if noProgress {
				pc.s.Violation(pc.rule, key+" progress", pos, "lexer loop in %s has a path from its header back to the header that calls no input-consuming function (readChar): the lexer can spin on the same byte forever", fnKey(fn))
			} else {
				pc.s.OK(pc.rule, key+" progress", pos, "every pass through the loop calls readChar (directly or through a function that always does)")
			}
			// one read per test for the end: the loop's exit condition is evaluated once per pass, so a pass that can
			// read twice reads past the end when the first read reaches it — the position then lies beyond the input
			// and the slice the reader returns (input[start:pos]) is out of range
			{
				var reads []ssa.Instruction
				for b := range li.body {
					for _, in := range b.Instrs {
						if c, isC := in.(ssa.CallInstruction); isC {
							if sc := c.Common().StaticCallee(); sc != nil && (pc.lexCI.callPoint(c) || pc.lexCI.may[sc]) {
								reads = append(reads, in)
							}
						}
					}
				}
				twice := ""
				for _, r1 := range reads {
					// forward search from just after r1, inside the loop, not through the header
					seen := map[*ssa.BasicBlock]bool{}
					type item struct {
						b    *ssa.BasicBlock
						from int
					}
					start := 0
					for i, x := range r1.Block().Instrs {
						if x == r1 {
							start = i + 1
						}
					}
					stack := []item{{r1.Block(), start}}
					for len(stack) > 0 && twice == "" {
						it := stack[len(stack)-1]
						stack = stack[:len(stack)-1]
						for i := it.from; i < len(it.b.Instrs); i++ {
							for _, r2 := range reads {
								if it.b.Instrs[i] == r2 {
									// a second read is fine when the character it moves off is known: a test made after the first read
									known := false
									for _, f := range expandFacts(factsAt(r2.Block())) {
										ci, isI := f.Cond.(ssa.Instruction)
										if !isI || !li.body[ci.Block()] {
											continue // a test made before the loop says nothing about this pass
										}
										// the test must look at the character the second read moves off: no read between the test and it
										// within one pass: forward from a to b without taking an edge back into the header
										before := func(a, b ssa.Instruction) bool {
											idx := func(x ssa.Instruction) int {
												for i, y := range x.Block().Instrs {
													if y == x {
														return i
													}
												}
												return -1
											}
											if a.Block() == b.Block() && idx(a) < idx(b) {
												return true
											}
											seenB := map[*ssa.BasicBlock]bool{}
											st := append([]*ssa.BasicBlock{}, a.Block().Succs...)
											for len(st) > 0 {
												x := st[len(st)-1]
												st = st[:len(st)-1]
												if seenB[x] || x == li.header || !li.body[x] {
													continue
												}
												seenB[x] = true
												if x == b.Block() {
													return true
												}
												st = append(st, x.Succs...)
											}
											return false
										}
										fresh := true
										for _, rx := range reads {
											if rx != r2 && rx != ssa.Instruction(ci) && before(ci, rx) && before(rx, r2) {
												fresh = false
											}
										}
										if fresh {
											if kn, val := evalCond(f.Cond, pc.lexEval(0), r2.Block()); kn && val != f.Holds {
												known = true // with char == 0 this branch would not have been taken
											}
										}
									}
									if !known {
										twice = fmt.Sprintf("%s and then %s", m.InstrPos(r1), m.InstrPos(r2))
									}
								}
							}
						}
						if it.from == 0 {
							if seen[it.b] {
								continue
							}
							seen[it.b] = true
						}
						for _, sc := range it.b.Succs {
							if sc == li.header || !li.body[sc] || seen[sc] {
								continue
							}
							stack = append(stack, item{sc, 0})
						}
					}
					if twice != "" {
						break
					}
				}
				if twice != "" {
					pc.s.Violation(pc.rule, key+" reads once per end test", pos, "lexer loop in %s can read twice in one pass (%s) while its end-of-input test is made once per pass: if the first read reaches the end of the input the second one moves the position beyond it, and slicing the input up to that position panics (e.g. an unterminated string ending in a backslash)", fnKey(fn), twice)
				} else if len(reads) > 0 {
					pc.s.OK(pc.rule, key+" reads once per end test", pos, "no pass through the loop reads a second character without a new test that excludes the end of input")
				}
			}
			// exit at end of input: l.char == 0
			ok, wit := exitsInState(li, pc.lexEvalAfter(0, li))
			if ok {
				pc.s.OK(pc.rule, key+" exits at end of input", pos, "with l.char == 0 every path from the header leaves the loop")
			} else {
				pc.s.Violation(pc.rule, key+" exits at end of input", pos, "lexer loop in %s does not leave when l.char == 0 (end of input): block path %s returns to the header; readChar keeps char at 0 there, so the loop never ends", fnKey(fn), wit)
			}
		}
	}
}

// lexEval: conditions under l.char == c.
func (pc *progressCtx) lexEval(c int64) condEval {
	return pc.lexEvalFiltered(c, func(ssa.Instruction) bool { return true })
}

// lexEvalFiltered: loads of l.char for which known(load) holds have the value c.
func (pc *progressCtx) lexEvalFiltered(c int64, known func(ssa.Instruction) bool) condEval {
	cv := constant.MakeInt64(c)
	var ev func(v ssa.Value) (constant.Value, bool)
	ev = func(v ssa.Value) (constant.Value, bool) {
		switch x := v.(type) {
		case *ssa.Const:
			if x.Value != nil {
				return x.Value, true
			}
		case *ssa.UnOp:
			if x.Op == token.MUL {
				if _, p, ok := pathOf(x); ok && p == ".char" && known(x) {
					return cv, true
				}
			}
			if x.Op == token.NOT {
				if b, ok := ev(x.X); ok {
					return constant.MakeBool(!constant.BoolVal(b)), true
				}
			}
		case *ssa.Convert:
			return ev(x.X)
		case *ssa.Extract:
			// the verdict of a lexer method (`tok, ok := l.scanToken()`) at the end of the input: the method is
			// evaluated on a lexer whose current character is 0 (readChar keeps it there), for every setting of the
			// lexer's boolean mode flags; the verdict is known when all settings agree
			if call, isCall := x.Tuple.(*ssa.Call); isCall && c == 0 && known(call) {
				if sc := call.Call.StaticCallee(); sc != nil && sc.Blocks != nil && x.Index < sc.Signature.Results().Len() && isBoolT(sc.Signature.Results().At(x.Index).Type()) && sc.Signature.Recv() != nil && strings.HasSuffix(derefTypeString(sc.Signature.Recv().Type()), "lexer.Lexer") {
					if r, ok := pc.lexVerdictAtEnd(sc, x.Index); ok {
						return constant.MakeBool(r), true
					}
				}
			}
		case *ssa.BinOp:
			l, ok1 := ev(x.X)
			r, ok2 := ev(x.Y)
			if ok1 && ok2 {
				return foldBinOp(x.Op, l, r)
			}
		case *ssa.Call:
			sc := x.Call.StaticCallee()
			if sc == nil && !x.Call.IsInvoke() {
				// a predicate handed in as a parameter (skipWhile(accept)): every function the callers pass must agree
				if p, isP := x.Call.Value.(*ssa.Parameter); isP {
					var args []constant.Value
					for _, a := range x.Call.Args {
						av, ok := ev(a)
						if !ok {
							return nil, false
						}
						args = append(args, av)
					}
					var res constant.Value
					for _, fvv := range pc.m.resolveUp(p, nil, 0) {
						var f *ssa.Function
						switch y := fvv.(type) {
						case *ssa.Function:
							f = y
						case *ssa.MakeClosure:
							f, _ = y.Fn.(*ssa.Function)
						}
						if f == nil {
							return nil, false
						}
						r, ok := pc.m.evalPure(f, args)
						if !ok || (res != nil && !constant.Compare(res, token.EQL, r)) {
							return nil, false
						}
						res = r
					}
					return res, res != nil
				}
				return nil, false
			}
			if sc == nil || !pc.m.InModule(sc) || sc.Signature.Recv() != nil {
				return nil, false
			}
			var args []constant.Value
			for _, a := range x.Call.Args {
				av, ok := ev(a)
				if !ok {
					return nil, false
				}
				args = append(args, av)
			}
			return pc.m.evalPure(sc, args)
		}
		return nil, false
	}
	return func(v ssa.Value) (bool, bool) {
		r, ok := ev(v)
		if !ok || r.Kind() != constant.Bool {
			return false, false
		}
		return true, constant.BoolVal(r)
	}
}

// lexVerdictAtEnd: the bool result #idx of the lexer method fn when the current character is 0, evaluated for every
// setting of the lexer's boolean fields (readChar is a no-op there: the character stays 0). Known when all agree.
func (pc *progressCtx) lexVerdictAtEnd(fn *ssa.Function, idx int) (bool, bool) {
	m := pc.m
	lexT := m.namedType("lexer", "Lexer")
	rc := m.Method("lexer", "Lexer", "readChar")
	if lexT == nil || rc == nil || len(fn.Params) != 1 {
		return false, false
	}
	st := lexT.Underlying().(*types.Struct)
	fChar := -1
	var boolFields []int
	for i := 0; i < st.NumFields(); i++ {
		if canonFieldName(lexT, i, st.Field(i).Name()) == "char" {
			fChar = i
		}
		if isBoolT(st.Field(i).Type()) {
			boolFields = append(boolFields, i)
		}
	}
	if fChar < 0 || len(boolFields) > 6 {
		return false, false
	}
	var res, have bool
	for mask := 0; mask < 1<<len(boolFields); mask++ {
		lx := &iStruct{typ: lexT, fields: map[int]any{fChar: constant.MakeInt64(0)}}
		for bi, f := range boolFields {
			lx.fields[f] = constant.MakeBool(mask&(1<<bi) != 0)
		}
		ip := &Interp{m: m, useGlobals: true}
		ip.call = func(c *ssa.Call, args []any) (any, bool) {
			if c.Call.StaticCallee() == rc {
				return nil, true
			}
			return nil, false
		}
		r, ok := ip.Run(fn, []any{lx})
		tup, isT := r.(iTuple)
		if !ok || !isT || idx >= len(tup) || ip.stuck != "" {
			return false, false
		}
		rcv, isC := tup[idx].(constant.Value)
		if !isC || rcv.Kind() != constant.Bool {
			return false, false
		}
		if have && constant.BoolVal(rcv) != res {
			return false, false
		}
		res, have = constant.BoolVal(rcv), true
	}
	return res, have
}

func (pc *progressCtx) parserLoops() {
	m := pc.m
	var stickyVals []int64
	for v := range pc.sticky {
		stickyVals = append(stickyVals, v)
	}
	sort.Slice(stickyVals, func(i, j int) bool { return stickyVals[i] < stickyVals[j] })
	for _, fn := range pc.parFns {
		for _, li := range naturalLoops(fn) {
			key := fmt.Sprintf("%s|%s", fnKey(fn), m.loopDesc(li))
			pos := m.InstrPos(li.header.Instrs[len(li.header.Instrs)-1])
			if why := finiteIdiom(li); why != "" {
				pc.s.OK(pc.rule, key+" terminates", pos, "%s", why)
				continue
			}
			noProgress := false
			for _, l := range li.latch {
				latch := l
				if pc.parCI.pathAvoiding(fn, li.header, 0, func(b *ssa.BasicBlock) bool { return b == latch }, li.body) {
					if !pc.parCI.blockConsumes(latch, 0) {
						noProgress = true
					}
				}
			}
			if noProgress {
				pc.s.Violation(pc.rule, key+" progress", pos, "parser loop in %s has a path from its header back to the header on which no token is consumed (no nextToken, no successful expectPeek, no call that always consumes): the parser can spin on the same token forever", fnKey(fn))
			} else {
				pc.s.OK(pc.rule, key+" progress", pos, "every pass through the loop consumes a token")
			}
			for _, sv := range stickyVals {
				name := pc.tokName[sv]
				ok, wit := exitsInState(li, pc.parEval(sv))
				k2 := fmt.Sprintf("%s exits when the lexer keeps returning %s", key, name)
				if ok {
					pc.s.OK(pc.rule, k2, pos, "with curToken = peekToken = %s every path from the header leaves the loop", name)
				} else {
					pc.s.Violation(pc.rule, k2, pos, "parser loop in %s does not leave when the lexer keeps returning %s (%s): with curToken = peekToken = %s the block path %s returns to the header, so parsing never ends", fnKey(fn), name, pc.sticky[sv], name, wit)
				}
			}
		}
	}
}

// parEval: conditions under curToken.Type == peekToken.Type == S (stable state).
func (pc *progressCtx) parEval(S int64) condEval {
	registered := func(field string) map[string]*handler {
		if field == "prefixParseFns" {
			return pc.pm.prefix
		}
		return pc.pm.infix
	}
	var ev condEval
	ev = func(v ssa.Value) (bool, bool) {
		switch x := v.(type) {
		case *ssa.Call:
			sc := x.Call.StaticCallee()
			if sc == nil {
				return false, false
			}
			switch canonFnName(sc) {
			case "curTokenIs", "expectPeek":
				if k, ok := x.Call.Args[1].(*ssa.Const); ok {
					return true, k.Int64() == S
				}
			case "peekTokenIs":
				elems := variadicElems(x.Call.Args[len(x.Call.Args)-1])
				if len(elems) == 0 {
					return false, false
				}
				any := false
				for _, e := range elems {
					k, ok := e.(*ssa.Const)
					if !ok {
						return false, false
					}
					if k.Int64() == S {
						any = true
					}
				}
				return true, any
			}
		case *ssa.BinOp:
			if x.Op != token.EQL && x.Op != token.NEQ {
				return false, false
			}
			eq := func(a, b ssa.Value) (bool, bool) {
				// token type field compared with a constant
				if _, p, ok := pathOf(a); ok && (strings.HasSuffix(p, ".curToken.Type") || strings.HasSuffix(p, ".peekToken.Type")) {
					if k, ok := b.(*ssa.Const); ok && k.Value != nil {
						return true, k.Int64() == S
					}
				}
				// parse function looked up for the current/peek token compared with nil
				if k, ok := b.(*ssa.Const); ok && k.IsNil() {
					if lk := lookupOf(a); lk != nil {
						if _, mp, ok := pathOf(lk.X); ok {
							field := strings.TrimPrefix(mp, ".")
							if field == "prefixParseFns" || field == "infixParseFns" {
								if _, ip, ok := pathOf(lk.Index); ok && (strings.HasSuffix(ip, ".curToken.Type") || strings.HasSuffix(ip, ".peekToken.Type")) {
									_, reg := registered(field)[pc.tokName[S]]
									return true, !reg // == nil
								}
							}
						}
					}
				}
				return false, false
			}
			for _, pr := range [][2]ssa.Value{{x.X, x.Y}, {x.Y, x.X}} {
				if k, val := eq(pr[0], pr[1]); k {
					if x.Op == token.NEQ {
						val = !val
					}
					return true, val
				}
			}
		}
		// `helper(p, precedence) == nil`: the helper is evaluated in the stable state with its integer arguments as named
		// unknowns, on every combination of outcomes of its tests of them (at most three tests); the condition is
		// decided when all of them agree
		if bo, isBo := v.(*ssa.BinOp); isBo && (bo.Op == token.EQL || bo.Op == token.NEQ) {
			for _, pr := range [][2]ssa.Value{{bo.X, bo.Y}, {bo.Y, bo.X}} {
				hc, isHC := pr[0].(*ssa.Call)
				if !isHC || !isNilConst(pr[1]) || hc.Call.StaticCallee() == nil || !pc.m.InModule(hc.Call.StaticCallee()) || hc.Call.StaticCallee().Blocks == nil {
					continue
				}
				callee := hc.Call.StaticCallee()
				args := make([]any, len(hc.Call.Args))
				for i, a := range hc.Call.Args {
					if isInteger(a.Type()) {
						args[i] = iSym{name: fmt.Sprintf("arg%d", i)}
					} else {
						args[i] = iObj{"parser"}
					}
				}
				if len(args) != len(callee.Params) {
					continue
				}
				agreed, first, decided := true, "", true
				for bits := 0; bits < 8 && decided; bits++ {
					ip := pc.m.parserInterp(S, S, pc.pm.precLit, func(field string, tok int64) bool {
						_, reg := registered(field)[pc.tokName[tok]]
						return reg
					})
					n := 0
					ip.branch = func(iSym, *ssa.If) (bool, bool) {
						n++
						if n > 3 {
							return false, false
						}
						return bits&(1<<(n-1)) != 0, true
					}
					res, ok := ip.Run(callee, args)
					ans := ""
					switch res.(type) {
					case iNil:
						ans = "nil"
					case iFn, *iClosure:
						ans = "fn"
					}
					if !ok || ans == "" || ip.stuck != "" || n > 3 {
						decided = false
						break
					}
					if first == "" {
						first = ans
					} else if ans != first {
						agreed = false
					}
				}
				if decided && agreed && first != "" {
					isNil := first == "nil"
					if bo.Op == token.NEQ {
						return true, !isNil
					}
					return true, isNil
				}
			}
		}
		// any other condition: evaluate it in the stable state (pure helpers of the parser are followed)
		if _, isCall := v.(*ssa.Call); !isCall {
			ip := pc.m.parserInterp(S, S, pc.pm.precLit, func(field string, tok int64) bool {
				_, reg := registered(field)[pc.tokName[tok]]
				return reg
			})
			if res, ok := ip.EvalValue(v, 0); ok {
				if c, isC := res.(constant.Value); isC && c.Kind() == constant.Bool {
					return true, constant.BoolVal(c)
				}
			}
		}
		return false, false
	}
	return ev
}

// recursion: in the call graph restricted to fns, removing the call edges whose
// site is dominated by a consumer point must leave an acyclic graph.
func (pc *progressCtx) recursion(name string, fns []*ssa.Function, ci *consumerInfo) {
	m := pc.m
	in := map[*ssa.Function]bool{}
	for _, f := range fns {
		in[f] = true
	}
	type edge struct {
		to   *ssa.Function
		site ssa.CallInstruction
	}
	nonCons := map[*ssa.Function][]edge{}
	nEdges, nCons := 0, 0
	for _, f := range fns {
		for _, b := range f.Blocks {
			for i, insn := range b.Instrs {
				c, ok := insn.(ssa.CallInstruction)
				if !ok {
					continue
				}
				var callees []*ssa.Function
				if sc := c.Common().StaticCallee(); sc != nil {
					callees = []*ssa.Function{sc}
				} else {
					callees = m.calleesOf(c)
				}
				for _, cal := range callees {
					// look through bound-method wrappers
					if isSynthetic(cal) {
						if node := m.CG.Nodes[cal]; node != nil {
							for _, e := range node.Out {
								if in[e.Callee.Func] {
									cal = e.Callee.Func
								}
							}
						}
					}
					if !in[cal] {
						continue
					}
					nEdges++
					target, idx := b, i
					reachNoConsume := ci.pathAvoiding(f, f.Blocks[0], 0, func(x *ssa.BasicBlock) bool {
						return x == target && !ci.blockConsumesBefore(x, idx)
					}, nil)
					if reachNoConsume {
						nonCons[f] = append(nonCons[f], edge{cal, c})
					} else {
						nCons++
					}
				}
			}
		}
	}
	// cycle detection in the non-consuming subgraph
	color := map[*ssa.Function]int{}
	var cyc []string
	var dfs func(f *ssa.Function, path []*ssa.Function) bool
	dfs = func(f *ssa.Function, path []*ssa.Function) bool {
		color[f] = 1
		for _, e := range nonCons[f] {
			if color[e.to] == 1 {
				for _, p := range append(path, f, e.to) {
					cyc = append(cyc, fnKey(p))
				}
				return true
			}
			if color[e.to] == 0 && dfs(e.to, append(path, f)) {
				return true
			}
		}
		color[f] = 2
		return false
	}
	sorted := append([]*ssa.Function{}, fns...)
	sort.Slice(sorted, func(i, j int) bool { return fnKey(sorted[i]) < fnKey(sorted[j]) })
	found := false
	for _, f := range sorted {
		if color[f] == 0 && dfs(f, nil) {
			found = true
			break
		}
	}
	key := name + "|recursion consumes input"
	if found {
		pc.s.Violation(pc.rule, key, "-", "recursion cycle in the %s on which no input is consumed between the calls: %s; such a cycle recurses forever (stack overflow) on some input", name, strings.Join(cyc, " -> "))
	} else {
		pc.s.OK(pc.rule, key, "-", "%d intra-package call edges, %d of them preceded by a consuming call on every path; the remaining edges form no cycle", nEdges, nCons)
	}
}
