package main

// rule_block.go — R-BLOCK (C08): lexing, parsing and loading "always return ... never waited on forever". Besides loops
// (R-PROGRESS) and recursion (R-RECDEPTH) the only way not to return is to wait: for another goroutine, on a channel.
// The functions reachable from the load roots contain no go statement, no channel send or receive and no select — a
// loader that parses files concurrently and collects failures through a channel with room for one blocks for ever on
// the second malformed file.

import (
	"go/token"
	"go/types"

	"golang.org/x/tools/go/ssa"
)

func (m *Model) RunNoBlocking(s *Sink, rule string, fns []*ssa.Function) {
	n := 0
	for _, fn := range fns {
		for _, b := range fn.Blocks {
			for _, in := range b.Instrs {
				what := ""
				switch x := in.(type) {
				case *ssa.Go:
					what = "starts a goroutine"
				case *ssa.Send:
					what = "sends on a channel"
				case *ssa.Select:
					what = "selects on channels"
				case *ssa.UnOp:
					if x.Op == token.ARROW {
						what = "receives from a channel"
					}
				case *ssa.MakeChan:
					what = "makes a channel"
				case ssa.CallInstruction:
					if sc := x.Common().StaticCallee(); sc != nil && sc.Signature.Recv() != nil {
						if nt, ok := derefT(sc.Signature.Recv().Type()).(*types.Named); ok && nt.Obj().Pkg() != nil && nt.Obj().Pkg().Path() == "sync" && (nt.Obj().Name() == "WaitGroup" || nt.Obj().Name() == "Cond") && sc.Name() == "Wait" {
							what = "waits on a sync." + nt.Obj().Name()
						}
					}
				}
				if what == "" {
					continue
				}
				n++
				s.Violation(rule, fnKey(fn)+"|"+what, m.InstrPos(in), "%s %s while templates are lexed, parsed or loaded: whether the call returns then depends on another goroutine taking part (a failure channel with room for one error blocks for ever on the second malformed file)", fnKey(fn), what)
			}
		}
	}
	if n == 0 {
		s.OK(rule, "load path|nothing waits", "-", "no go statement, channel operation, select or WaitGroup/Cond wait in the %d functions reachable from the load roots", len(fns))
	}
	if len(fns) < 100 {
		s.Undecided(rule, "load path", "-", "only %d functions reachable from the load roots (expected at least 100)", len(fns))
	}
}

func derefT(t types.Type) types.Type {
	if p, ok := t.(*types.Pointer); ok {
		return p.Elem()
	}
	return t
}
