package main

// rule_evalerr.go — R-EVALERR: evaluation errors propagate.
//
// An evaluation failure is an *object.Error value returned by Eval. It becomes the error of the render only if every
// evaluator function hands it up unchanged: the result of every e.Eval(...) is either returned, or tested with isError
// before anything else is done with it (stored into an object, appended to output, dumped, passed on). A result used
// without that test can end up printed inside a "successful" page — with the message and the file path in it.

import (
	"fmt"

	"golang.org/x/tools/go/ssa"
)

func (m *Model) RunEvalErr(s *Sink, rule string) {
	n := 0
	for _, fn := range m.ModFns {
		if fn.Blocks == nil || !inPkg(fn, "evaluator") {
			continue
		}
		cnt := 0
		for _, b := range fn.Blocks {
			for _, in := range b.Instrs {
				c, ok := in.(*ssa.Call)
				if !ok || !isEvalCall(m, c) {
					continue
				}
				cnt++
				n++
				key := fmt.Sprintf("%s|result of Eval #%d is returned or error-tested before use", fnKey(fn), cnt)
				if m.evalWrapper(fn) != 0 {
					continue // the wrapper itself: it hands the result and its error test to the caller
				}
				bad := m.untestedUse(c, evalValue(m, c), map[ssa.Value]bool{})
				if bad == nil {
					s.OK(rule, key, m.InstrPos(c), "every use is isError(x), a return, or lies under isError(x) == false")
				} else {
					s.Violation(rule, key, m.InstrPos(bad), "%s uses the result of e.Eval(%s) (%s at %s) on a path where it was not tested with isError: a failing sub-expression does not fail the render, its error object is embedded in the output instead",
						fnKey(fn), valueDesc(c.Call.Args[1]), fmt.Sprintf("%T", bad), m.InstrPos(bad))
				}
			}
		}
	}
	if n < 25 {
		s.Undecided(rule, "evaluator|Eval call sites", "-", "expected at least 25 recursive Eval calls in the evaluator, found %d", n)
	}
}

// untestedUse returns a use of v (an alias of the Eval result root) that is neither an isError test, a return, nor
// dominated by isError(alias) == false.
func (m *Model) untestedUse(root *ssa.Call, v ssa.Value, seen map[ssa.Value]bool) ssa.Instruction {
	if seen[v] || v.Referrers() == nil {
		return nil
	}
	seen[v] = true
	aliases := []ssa.Value{evalValue(m, root), v}
	for _, r := range *v.Referrers() {
		switch x := r.(type) {
		case *ssa.DebugRef, *ssa.Return:
			continue
		case *ssa.Call:
			if staticCalleeNamed(x, "evaluator", "isError") {
				continue
			}
		case *ssa.Phi:
			// the value joins others: clean if it arrives only over edges on which it has been tested
			tested := true
			for i, e := range x.Edges {
				if e != v {
					continue
				}
				pred := x.Block().Preds[i]
				okEdge := false
				for _, a := range aliases {
					if errorFactOn(pred, a, false) || errorFactOn(pred, a, true) {
						okEdge = true
					}
					for _, f := range expandFacts(edgeFact(pred, x.Block())) {
						if c, isC := f.Cond.(*ssa.Call); isC && staticCalleeNamed(c, "evaluator", "isError") && len(c.Call.Args) == 1 && c.Call.Args[0] == a {
							okEdge = true
						}
					}
				}
				if !okEdge {
					tested = false
				}
			}
			if tested {
				continue
			}
			if bad := m.untestedUse(root, x, seen); bad != nil {
				return bad
			}
			continue
		case *ssa.Store:
			// spilled result local (defer) or a plain local variable: follow the loads
			if al, ok := x.Addr.(*ssa.Alloc); ok && x.Val == v {
				bad := false
				for _, ar := range *al.Referrers() {
					if ld, isLd := ar.(*ssa.UnOp); isLd {
						if b2 := m.untestedUse(root, ld, seen); b2 != nil {
							return b2
						}
					} else if ar != ssa.Instruction(x) {
						if _, isSt := ar.(*ssa.Store); !isSt {
							bad = true
						}
					}
				}
				if !bad {
					continue
				}
			}
		}
		guarded := false
		for _, a := range aliases {
			if errorFactOn(r.Block(), a, false) || errorFactOn(r.Block(), a, true) {
				guarded = true // tested: on the error branch whatever is done with it is deliberate error handling
			}
		}
		// a test through a helper with the same meaning: the failure verdict of a call that received the value
		if !guarded {
			for _, f := range expandFacts(factsAt(r.Block())) {
				if c, ok := f.Cond.(*ssa.Call); ok && !f.Holds && staticCalleeNamed(c, "evaluator", "isError") {
					if phi, isPhi := c.Call.Args[0].(*ssa.Phi); isPhi {
						for _, e := range phi.Edges {
							if e == v || e == ssa.Value(root) {
								guarded = true
							}
						}
					}
				}
			}
		}
		if !guarded {
			return r
		}
	}
	return nil
}
