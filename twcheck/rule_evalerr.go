package main

// rule_evalerr.go — R-EVALERR: evaluation errors propagate.
//
// An evaluation failure is an *object.Error value returned by Eval. It becomes the error of the render only if every
// evaluator function hands it up unchanged: the result of every e.Eval(...) is either returned, or tested with isError
// before anything else is done with it (stored into an object, appended to output, dumped, passed on). A result used
// without that test can end up printed inside a "successful" page — with the message and the file path in it.

import (
	"fmt"
	"go/token"
	"go/types"

	"golang.org/x/tools/go/ssa"
)

func (m *Model) RunEvalErr(s *Sink, rule string) {
	n := 0
	for _, fn := range m.ModFns {
		if fn.Blocks == nil || !inPkg(fn, "evaluator") {
			continue
		}
		cnt := 0
		for _, b := range fn.Blocks {
			for _, in := range b.Instrs {
				c, ok := in.(*ssa.Call)
				if !ok || !isEvalCall(m, c) {
					continue
				}
				cnt++
				n++
				key := fmt.Sprintf("%s|result of Eval #%d is returned or error-tested before use", fnKey(fn), cnt)
				if m.evalWrapper(fn) != 0 {
					continue // the wrapper itself: it hands the result and its error test to the caller
				}
				m.errorBranchReturns(s, rule, fn, c, cnt)
				bad := m.untestedUse(c, evalValue(m, c), map[ssa.Value]bool{})
				if bad == nil {
					s.OK(rule, key, m.InstrPos(c), "every use is isError(x), a return, or lies under isError(x) == false")
				} else {
					s.Violation(rule, key, m.InstrPos(bad), "%s uses the result of e.Eval(%s) (%s at %s) on a path where it was not tested with isError: a failing sub-expression does not fail the render, its error object is embedded in the output instead",
						fnKey(fn), valueDesc(c.Call.Args[1]), fmt.Sprintf("%T", bad), m.InstrPos(bad))
				}
			}
		}
	}
	if n < 25 {
		s.Undecided(rule, "evaluator|Eval call sites", "-", "expected at least 25 recursive Eval calls in the evaluator, found %d", n)
	}
}

// untestedUse returns a use of v (an alias of the Eval result root) that is neither an isError test, a return, nor
// dominated by isError(alias) == false.
func (m *Model) untestedUse(root *ssa.Call, v ssa.Value, seen map[ssa.Value]bool) ssa.Instruction {
	if seen[v] || v.Referrers() == nil {
		return nil
	}
	seen[v] = true
	aliases := []ssa.Value{evalValue(m, root), v}
	for _, r := range *v.Referrers() {
		switch x := r.(type) {
		case *ssa.DebugRef, *ssa.Return:
			continue
		case *ssa.Call:
			if staticCalleeNamed(x, "evaluator", "isError") {
				continue
			}
		case *ssa.Phi:
			// the value joins others: clean if it arrives only over edges on which it has been tested
			tested := true
			for i, e := range x.Edges {
				if e != v {
					continue
				}
				pred := x.Block().Preds[i]
				okEdge := false
				for _, a := range aliases {
					if errorFactOn(pred, a, false) || errorFactOn(pred, a, true) {
						okEdge = true
					}
					for _, f := range expandFacts(edgeFact(pred, x.Block())) {
						if c, isC := f.Cond.(*ssa.Call); isC && staticCalleeNamed(c, "evaluator", "isError") && len(c.Call.Args) == 1 && c.Call.Args[0] == a {
							okEdge = true
						}
					}
				}
				if !okEdge {
					tested = false
				}
			}
			if tested {
				continue
			}
			if bad := m.untestedUse(root, x, seen); bad != nil {
				return bad
			}
			continue
		case *ssa.Store:
			// spilled result local (defer) or a plain local variable: follow the loads
			if al, ok := x.Addr.(*ssa.Alloc); ok && x.Val == v {
				bad := false
				for _, ar := range *al.Referrers() {
					if ld, isLd := ar.(*ssa.UnOp); isLd {
						if b2 := m.untestedUse(root, ld, seen); b2 != nil {
							return b2
						}
					} else if ar != ssa.Instruction(x) {
						if _, isSt := ar.(*ssa.Store); !isSt {
							bad = true
						}
					}
				}
				if !bad {
					continue
				}
			}
		}
		guarded := false
		for _, a := range aliases {
			if errorFactOn(r.Block(), a, false) || errorFactOn(r.Block(), a, true) {
				guarded = true // tested: on the error branch whatever is done with it is deliberate error handling
			}
		}
		// a test through a helper with the same meaning: the failure verdict of a call that received the value
		if !guarded {
			for _, f := range expandFacts(factsAt(r.Block())) {
				if c, ok := f.Cond.(*ssa.Call); ok && !f.Holds && staticCalleeNamed(c, "evaluator", "isError") {
					if phi, isPhi := c.Call.Args[0].(*ssa.Phi); isPhi {
						for _, e := range phi.Edges {
							if e == v || e == ssa.Value(root) {
								guarded = true
							}
						}
					}
				}
			}
		}
		if !guarded {
			return r
		}
	}
	return nil
}

// errorBranchReturns: once an Eval result has been found to be an error (the true side of isError(x)), the function
// returns it — itself, wrapped in a new error, or (functions that evaluate a list) as the only element of the returned
// slice, which is how their callers recognise a failure. Control must not flow back into the normal path: an error that
// is tested and then replaced by a value, or left among the results, does not fail the render.
func (m *Model) errorBranchReturns(s *Sink, rule string, fn *ssa.Function, c *ssa.Call, cnt int) {
	v := evalValue(m, c)
	errT := m.namedType("object", "Error")
	var rebuilt *ssa.Call // the error was handed up as a new error object (its line is then that of another node)
	var carries func(r ssa.Value, d int) bool
	carries = func(r ssa.Value, d int) bool {
		if d > 4 {
			return false
		}
		r = stripIface(r)
		if r == v || r == ssa.Value(c) {
			return true
		}
		switch x := r.(type) {
		case *ssa.Phi:
			for _, e := range x.Edges {
				if !carries(e, d+1) {
					return false
				}
			}
			return len(x.Edges) > 0
		case *ssa.TypeAssert:
			return carries(x.X, d+1)
		case *ssa.Call:
			if errT != nil && x.Call.Signature().Results().Len() == 1 && types.Identical(x.Call.Signature().Results().At(0).Type(), types.NewPointer(errT)) {
				rebuilt = x
				return true // a new error object built from it
			}
		case *ssa.Slice:
			if el := variadicElems(x); len(el) == 1 && el[0] != nil {
				return carries(el[0], d+1)
			}
		case *ssa.UnOp:
			// a spilled result (defer): what was stored last
			if al, ok := x.X.(*ssa.Alloc); ok && x.Op == token.MUL {
				okAll, n := true, 0
				for _, ar := range *al.Referrers() {
					if st, isSt := ar.(*ssa.Store); isSt && st.Addr == ssa.Value(al) && st.Block() == x.Block() {
						n++
						if !carries(st.Val, d+1) {
							okAll = false
						}
					}
				}
				return okAll && n > 0
			}
		}
		return false
	}
	region := 0
	var bad ssa.Instruction
	why := ""
	for _, b := range fn.Blocks {
		if !errorFactOn(b, v, true) {
			continue
		}
		region++
		last := b.Instrs[len(b.Instrs)-1]
		switch t := last.(type) {
		case *ssa.Return:
			any := false
			for i := range t.Results {
				if carries(retSource(t, i), 0) {
					any = true // a helper with several results hands the error up in one of them
				}
			}
			// handed up as a field of a small result (`condResult{err: obj}`): accepted when every caller is a construct
			// whose behaviour on a failing condition is decided by case evaluation
			if !any {
				for i := range t.Results {
					if ld, isLd := retSource(t, i).(*ssa.UnOp); isLd && ld.Op == token.MUL {
						if al, isAl := ld.X.(*ssa.Alloc); isAl && al.Referrers() != nil {
							for _, ar := range *al.Referrers() {
								fa, isFA := ar.(*ssa.FieldAddr)
								if !isFA || fa.Referrers() == nil {
									continue
								}
								for _, fr := range *fa.Referrers() {
									if st, isSt := fr.(*ssa.Store); isSt && st.Addr == ssa.Value(fa) && (st.Block() == b || errorFactOn(st.Block(), v, true)) && carries(st.Val, 0) && m.callersDecidedByCases(fn) {
										any = true
									}
								}
							}
						}
					}
				}
			}
			if !any {
				if bad == nil {
					bad, why = t, "returns something that does not carry the error"
					if len(t.Results) > 0 {
						why += " (" + valueDesc(retSource(t, 0)) + ")"
					}
				}
			}
		case *ssa.Panic:
		default:
			for _, sc := range b.Succs {
				if !errorFactOn(sc, v, true) && bad == nil {
					bad, why = last, "continues on the normal path"
				}
			}
		}
	}
	if region == 0 {
		return // returned untested, or tested in a way the facts do not show: the use rule above decides
	}
	if m.errPassStrict {
		k2 := fmt.Sprintf("%s|the error of a failing Eval #%d keeps its own line", fnKey(fn), cnt)
		if rebuilt != nil {
			s.Violation(rule, k2, m.InstrPos(rebuilt), "%s answers the failure of e.Eval(%s) with a new error object (%s) instead of handing the error up as it is: the new error carries the line of the node it is built from — a fault inside the body or a slot of a construct is reported on the line of the construct", fnKey(fn), valueDesc(c.Call.Args[1]), valueDesc(rebuilt))
		} else if bad == nil {
			s.OK(rule, k2, m.InstrPos(c), "on the isError side the error object itself is what is returned")
		}
	}
	key := fmt.Sprintf("%s|a failing Eval #%d fails the construct", fnKey(fn), cnt)
	if bad == nil {
		s.OK(rule, key, m.InstrPos(c), "on the isError side every path returns the error (itself, wrapped, or as the single element of the result list)")
	} else {
		s.Violation(rule, key, m.InstrPos(bad), "%s tests the result of e.Eval(%s) with isError, but on the error side it %s: the failure of a sub-expression is swallowed (or left among ordinary results where the callers do not look for it), so the render succeeds with a wrong page", fnKey(fn), valueDesc(c.Call.Args[1]), why)
	}
}

// callersDecidedByCases: every call of fn is a static call from the evaluator of a construct whose behaviour on a
// failing condition is decided by case evaluation of Eval (@if, @breakIf, @continueIf, the ternary), and those case
// evaluations are decided and good.
func (m *Model) callersDecidedByCases(fn *ssa.Function) bool {
	node := m.CG.Nodes[fn]
	if node == nil || len(node.In) == 0 {
		return false
	}
	for _, e := range node.In {
		if e.Site == nil || e.Site.Common().StaticCallee() != fn {
			return false
		}
		good := false
		switch canonFnName(e.Caller.Func) {
		case "evalIfStmt":
			cr := m.ifCases()
			good = cr.decided && len(cr.bad) == 0
		case "evalBreakIfStmt":
			bad, decided, _ := m.controlIfCases("BreakIfStmt", "Break")
			good = decided && bad == ""
		case "evalContinueIfStmt":
			bad, decided, _ := m.controlIfCases("ContinueIfStmt", "Continue")
			good = decided && bad == ""
		case "evalTernaryExp":
			bad, decided, _ := m.ternaryCases()
			good = decided && bad == ""
		}
		if !good {
			return false
		}
	}
	return true
}
