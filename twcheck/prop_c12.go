package main

func init() {
	register(&PropInfo{
		ID:    "C12",
		Title: "Go data passed to a render is visible in the template with the same structure",
		Rules: []string{
			"R-PATHAPI (EvaluateFile): the file's content and the caller's data are handed to EvaluateString unchanged",
			"R-ESCAPE (printing): no String method of package object calls a trimming, replacing, case-mapping, escaping or UTF-8 repairing function",
			"R-KWTABLE: the keyword table holds exactly true, false, nil and in (any other word there is a data key that cannot be named)",
			"R-FORMAT: no rendered text is used as a printf format (strings print their exact bytes)",
			"R-DOTKW: the parse function registered for the dot, by cases on the abstract parser: an identifier and every keyword token is a name after the dot; a non-name is an error",
			"R-KINDS (supported kinds): the conversion's dispatch on reflect.Kind has a case for each of the 18 supported kinds (named types do not match the type switch)",
			"R-USERCODE: the data conversion calls no method of a data value: structs, maps and pointers are visible by their fields and keys whatever methods they have",
			"R-LITERAL: the identifier alphabet (names of fields and keys reachable by dot)",
			"R-KINDS (literal keys): the object a string literal evaluates to holds the text as written (no escaping at evaluation), so that a key is looked up under its name",
			"R-UTF8 (names): every slice of a string in the evaluator's own functions has bounds on character boundaries (the first-letter fallback of field names)",
			"R-SHARED-RW: no package-level variable is both written and read on the render paths (state kept between calls: a shared environment for data-less renders, a cache of converted data or parsed programs)",
			"R-SCOPE: the data map is bound through Env.Set and nothing else writes a scope's store",
			"R-KINDS: NativeToObject has a case for each of the 14 scalar Go types and nil, mapping to the object kind of C12 with the value as payload; reflect kinds Struct, Slice, Map, Pointer are handled; every other kind yields nil; map keys are used only after the String-kind test; struct fields only under IsExported; no reflect setter in the library; property lookup tries the exact key then the upper-cased first letter and ends in an error",
			"R-NILOBJ: a nil conversion result is checked at every nesting level; Elem().Interface() only after IsNil()",
			"R-SHARED: no write reaches the caller's data map from any render entry point",
		},
		Decided:     "TODO",
		NotDecided:  "TODO",
		Assumptions: trustedBase,
		Run: func(m *Model, s *Sink) {
			m.RunEvalFile(s, "R-PATHAPI")                                    // the data of the call reaches the evaluation as it is
			m.RunObjString(s, "R-ESCAPE")                                    // strings print their exact bytes: printing an object does not rewrite its text
			m.RunKeywordTable(s, "R-KWTABLE")                                // no data key is shadowed by a keyword other than true, false, nil, in
			m.RunFormat(s, "R-FORMAT", m.reachableFns(m.Roots().Render))     // a percent sign in a data string is not a verb
			m.RunDotKeywords(s, "R-DOTKW")                                   // a field or key spelled like a keyword is reachable with dot syntax
			m.RunSupportedKinds(s, "R-KINDS")                                // a value of a named type is converted by its kind
			m.RunNoUserMethods(s, "R-USERCODE")                              // structs, maps and pointers are converted by their structure whatever methods they have
			m.RunLiteral(s, "R-LITERAL")                                     // a field name such as Col9 is one identifier
			m.RunLiteralKey(s, "R-KINDS")                                    // the name in m["..."] reaches the lookup as written
			m.RunNameCuts(s, "R-UTF8")                                       // the lower-cased-first-letter fallback works on letters, not bytes
			m.RunSharedWrites(s, "R-SHARED-RW", m.Roots().Render, "history") // what one render leaves behind must not reach the next (a shared environment for data-less calls, a cache of bound data, a memo of parsed strings)
			m.RunScope(s, "R-SCOPE")                                         // data is bound through Env.Set: nothing else writes a scope's store (aliases, reserved names)
			m.RunKinds(s, "R-KINDS")
			r := m.Roots()
			var objFns = m.reachableFns(r.Render)
			var sel = objFns[:0:0]
			for _, fn := range objFns {
				if shortPkg(fnPkgPath(fn)) == "object" {
					sel = append(sel, fn)
				}
			}
			m.RunNilObj(s, "R-NILOBJ", sel)
			m.RunTypedNil(s, "R-NILOBJ", sel)
			m.RunSharedWrites(s, "R-SHARED", r.Render, "race")
			s.RequireMin("R-KINDS", 24, "14 Go types, nil, 4 kinds, fall-through, map keys, setters, lookup x2, exported")
		},
	})
}
