package main

func init() {
	register(&PropInfo{
		ID:    "C12",
		Title: "Go data passed to a render is visible in the template with the same structure",
		Rules: []string{
			"R-SCOPE: the data map is bound through Env.Set and nothing else writes a scope's store",
			"R-KINDS: NativeToObject has a case for each of the 14 scalar Go types and nil, mapping to the object kind of C12 with the value as payload; reflect kinds Struct, Slice, Map, Pointer are handled; every other kind yields nil; map keys are used only after the String-kind test; struct fields only under IsExported; no reflect setter in the library; property lookup tries the exact key then the upper-cased first letter and ends in an error",
			"R-NILOBJ: a nil conversion result is checked at every nesting level; Elem().Interface() only after IsNil()",
			"R-SHARED: no write reaches the caller's data map from any render entry point",
		},
		Decided:     "TODO",
		NotDecided:  "TODO",
		Assumptions: trustedBase,
		Run: func(m *Model, s *Sink) {
			m.RunScope(s, "R-SCOPE") // data is bound through Env.Set: nothing else writes a scope's store (aliases, reserved names)
			m.RunKinds(s, "R-KINDS")
			r := m.Roots()
			var objFns = m.reachableFns(r.Render)
			var sel = objFns[:0:0]
			for _, fn := range objFns {
				if shortPkg(fnPkgPath(fn)) == "object" {
					sel = append(sel, fn)
				}
			}
			m.RunNilObj(s, "R-NILOBJ", sel)
			m.RunTypedNil(s, "R-NILOBJ", sel)
			m.RunSharedWrites(s, "R-SHARED", r.Render, "race")
			s.RequireMin("R-KINDS", 24, "14 Go types, nil, 4 kinds, fall-through, map keys, setters, lookup x2, exported")
		},
	})
}
