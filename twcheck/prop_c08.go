package main

func init() {
	register(&PropInfo{
		ID:    "C08",
		Title: "Lexing and parsing terminate on every input and end in a program or an error",
		Rules: []string{
			"R-PROGRESS: every lexer/parser loop consumes input on each pass and leaves at end of input and on every sticky token; every recursion cycle contains a consuming call",
		},
		Decided:     "TODO",
		NotDecided:  "TODO",
		Assumptions: trustedBase,
		Run: func(m *Model, s *Sink) {
			m.RunProgress(s, "R-PROGRESS")
			m.RunDelim(s, "R-DELIM")
		},
	})
}
