package main

func init() {
	register(&PropInfo{
		ID:    "C08",
		Title: "Lexing and parsing terminate on every input and end in a program or an error",
		Rules: []string{
			"R-PATHAPI (file content): EvaluateFile hands the file's bytes to EvaluateString unchanged",
			"R-ERRLINE: every error the parser records takes its line from the ErrorLine() of a token (never 0, the library's \"no line\")",
			"R-BLOCK: no go statement, channel send / receive or select in the functions that lex, parse and load (parsing is never waited on)",
			"R-NILRET: on the load path the result of a parse is used only after its errors were tested",
			"R-SHARED-RW: no package-level variable is both written and read on the render paths (state kept between calls: a shared environment for data-less renders, a cache of converted data or parsed programs)",
			"R-RECDEPTH: every cycle of the call graph (VTA, function tables included) among the lexing and parsing functions runs through a depth guard; a cycle without one is a recursion whose depth the input decides (stack overflow ends the process)",
			"R-LOADREC: the loader functions of the root package do not call each other in a cycle (loading is bounded by the files and the uses in them)",
			"R-ILLEGAL: the ILLEGAL token for an unknown character is built without consuming input (the parser's only ILLEGAL check is at statement starts; names/keys are taken from the current token unchecked)",
			"R-NILERR: every `return nil` of a parse function is preceded on all paths by a recorded error (newError, failure edge of an expect function, nil result of a parse function with the same guarantee — greatest fixpoint); parseStr/parseProgram hand out a program only when the parser recorded no error",
			"R-NILPARSE: in the parser no result of a parse function and no AST-interface parameter is dereferenced without a dominating non-nil test (they are nil after a recorded error)",
			"R-EOFTOKEN: abstractly executing NextToken and its callees with l.char == 0 up to the first consuming call, only EOF or ILLEGAL tokens can be built",
			"R-TOKTABLE: the token-name table indexed by error messages has a non-empty entry for every TokenType constant",
			"R-ASSERT / R-BOUNDS / R-PANICCALL over everything reachable from lexer.New, NextToken, parser.New and ParseProgram",
			"R-PROGRESS: every lexer/parser loop consumes input on each pass and leaves at end of input and on every sticky token; every recursion cycle contains a consuming call",
		},
		Decided:     "TODO",
		NotDecided:  "TODO",
		Assumptions: trustedBase,
		Run: func(m *Model, s *Sink) {
			m.RunEvalFile(s, "R-PATHAPI")                                    // the whole content of a file reaches the lexer
			m.RunErrLine(s, "R-ERRLINE")                                     // the error a rejected template yields carries a line: every parser error takes it from the ErrorLine() of a token (1-based)
			m.RunNoBlocking(s, "R-BLOCK", m.reachableFns(m.Roots().Load))    // nothing on the load path can wait: no goroutines, channel operations or selects
			m.RunNilRet(s, "R-NILRET", m.reachableFns(m.Roots().Load))       // a nil program is not touched before its errors were tested
			m.RunCodeEnd(s, "R-DELIM")                                       // a token that may end embedded code is not skipped silently where a statement is expected
			m.RunSlotListEnd(s, "R-DELIM")                                   // a component use with slots is closed by its own @end
			m.RunSharedWrites(s, "R-SHARED-RW", m.Roots().Render, "history") // what one render leaves behind must not reach the next (a shared environment for data-less calls, a cache of bound data, a memo of parsed strings)
			m.RunIllegalTop(s, "R-ILLEGAL")
			m.RunLoadRecursion(s, "R-LOADREC")
			m.RunProgress(s, "R-PROGRESS")
			m.RunDelim(s, "R-DELIM")
			m.RunTokTable(s, "R-TOKTABLE")
			m.RunNilParse(s, "R-NILPARSE")
			m.RunNilErr(s, "R-NILERR")
			m.RunIllegalSticky(s, "R-ILLEGAL")
			m.RunUnterminatedAtEnd(s, "R-ILLEGAL") // an unterminated comment or string is found at the end of the input, not before
			m.RunEOFToken(s, "R-EOFTOKEN")
			// the lexer and parser themselves cannot panic: assertions, bounds, nil results
			r := m.Roots()
			lp := m.reachableFns(r.LexParse)
			m.newAssertChecker(s).Run("R-ASSERT", lp)
			m.newBoundsChecker(s).Run("R-BOUNDS", "R-DIVGUARD", lp)
			m.RunPanicCall(s, "R-PANICCALL", lp)
			m.RunRecDepth(s, "R-RECDEPTH", lp, 2, false) // the statement and the expression descent
		},
	})
}
