package main

// rule_registry.go — R-REGISTRY (C20) and R-VAL (object -> native conversion siblings).

import (
	"fmt"
	"go/constant"
	"go/token"
	"go/types"
	"sort"
	"strings"

	"golang.org/x/tools/go/ssa"
)

var kindField = map[string]string{"STRING": "Str", "ARRAY": "Arr", "INTEGER": "Int", "FLOAT": "Float", "BOOLEAN": "Bool"}

func isCustomFuncMap(t types.Type) bool {
	mp, ok := t.Underlying().(*types.Map)
	if !ok {
		return false
	}
	return strings.Contains(types.TypeString(mp.Elem(), nil), "/config.") && strings.HasSuffix(types.TypeString(mp.Elem(), nil), "CustomFunc")
}

func (m *Model) RunRegistry(s *Sink, rule string) {
	r := m.Roots()
	// (1) check-then-insert on the same map and key
	for _, fn := range r.Registry {
		fk := fnKey(fn)
		// the store may be in the function itself or in a helper it delegates to (the table, name and function passed
		// as arguments): values are resolved along the call chain
		var upd *ssa.MapUpdate
		var updResolve func(ssa.Value) ssa.Value
		updDepth := 0
		m.walkInlined(fn, 2, func(in ssa.Instruction, resolve func(ssa.Value) ssa.Value, depth int) {
			if mu, ok := in.(*ssa.MapUpdate); ok && isCustomFuncMap(mu.Map.Type()) {
				upd, updResolve, updDepth = mu, resolve, depth
			}
		})
		if upd == nil {
			s.Violation(rule, fk+"|stores the function", m.Pos(fn.Pos()), "%s never stores the function into a registry map: the registered function is not callable", fk)
			continue
		}
		owner := upd.Parent()
		a := m.NewArith(owner)
		same := func(x, y ssa.Value) bool {
			rx, ry := updResolve(x), updResolve(y)
			return rx == ry || a.canonKey(rx) == a.canonKey(ry)
		}
		mapPath := fieldPathOf(updResolve(upd.Map))
		if updDepth > 0 {
			// the helper's verdict must be what the registration function returns, and the function stored must be the one given
			for _, b := range fn.Blocks {
				if ret, ok := b.Instrs[len(b.Instrs)-1].(*ssa.Return); ok && len(ret.Results) == 1 {
					if c, isC := ret.Results[0].(*ssa.Call); !isC || c.Call.StaticCallee() != owner {
						s.Violation(rule, fk+"|returns the helper's verdict", m.InstrPos(ret), "%s delegates the registration to %s but does not return its result on every path", fk, fnKey(owner))
					}
				}
			}
			if _, isPar := stripIface(updResolve(upd.Value)).(*ssa.Parameter); !isPar {
				s.Violation(rule, fk+"|stores the given function", m.InstrPos(upd), "the value stored by %s is not the function passed to %s", fnKey(owner), fk)
			}
		}
		guarded := false
		for _, f := range expandFacts(factsAt(upd.Block())) {
			ex, ok := f.Cond.(*ssa.Extract)
			if !ok || ex.Index != 1 || f.Holds {
				continue
			}
			lk, ok := ex.Tuple.(*ssa.Lookup)
			if !ok || !lk.CommaOk {
				continue
			}
			if (same(lk.X, upd.Map) || fieldPathOf(updResolve(lk.X)) == mapPath && mapPath != "") && same(lk.Index, upd.Key) {
				guarded = true
				// hit edge must return a non-nil error without storing
				hit := hitBlock(ex)
				okHit := false
				if hit != nil {
					if ret, ok := hit.Instrs[len(hit.Instrs)-1].(*ssa.Return); ok && len(ret.Results) == 1 {
						if k, isC := ret.Results[0].(*ssa.Const); !(isC && k.IsNil()) {
							okHit = true
						}
					}
				}
				if okHit {
					s.OK(rule, fk+"|duplicate registration is an error", m.InstrPos(lk), "the hit edge of the lookup returns a non-nil error and does not store")
				} else {
					s.Violation(rule, fk+"|duplicate registration is an error", m.InstrPos(lk), "on a second registration of the same name %s does not return a non-nil error", fk)
				}
			}
		}
		if guarded {
			s.OK(rule, fk+"|stores only when the name is free", m.InstrPos(upd), "the store into customFunc%s is dominated by the miss edge of a lookup of the same map with the same key", mapPath)
		} else {
			s.Violation(rule, fk+"|stores only when the name is free", m.InstrPos(upd), "%s stores into customFunc%s without a dominating failed lookup of the same map and key: a second registration replaces the first function (or the check consults a different receiver type's table)", fk, mapPath)
		}
		// a name that is free is accepted: every return of an error lies on the hit edge of a lookup in a registry table
		{
			refused := ""
			for _, b := range owner.Blocks {
				ret, ok := b.Instrs[len(b.Instrs)-1].(*ssa.Return)
				if !ok || len(ret.Results) != 1 || isNilConst(ret.Results[0]) {
					continue
				}
				onHit := false
				for _, f := range expandFacts(factsAt(b)) {
					if ex, isEx := f.Cond.(*ssa.Extract); isEx && ex.Index == 1 && f.Holds {
						if lk, isLk := ex.Tuple.(*ssa.Lookup); isLk && lk.CommaOk && isCustomFuncMap(lk.X.Type()) {
							onHit = true
						}
					}
				}
				if ph, isPhi := ret.Results[0].(*ssa.Phi); isPhi && !onHit {
					// a merged result: every edge that brings an error comes from the hit side
					all := true
					for i, e := range ph.Edges {
						if isNilConst(e) {
							continue
						}
						hit := false
						for _, f := range expandFacts(factsAt(ph.Block().Preds[i])) {
							if ex, isEx := f.Cond.(*ssa.Extract); isEx && ex.Index == 1 && f.Holds {
								if lk, isLk := ex.Tuple.(*ssa.Lookup); isLk && lk.CommaOk && isCustomFuncMap(lk.X.Type()) {
									hit = true
								}
							}
						}
						if !hit {
							all = false
						}
					}
					onHit = all
				}
				if !onHit && refused == "" {
					refused = m.InstrPos(ret)
				}
			}
			if refused == "" {
				s.OK(rule, fk+"|a free name is accepted", m.Pos(owner.Pos()), "every return of an error lies on the hit edge of the lookup in the table")
			} else {
				s.Violation(rule, fk+"|a free name is accepted", refused, "%s can return an error for a name that is not in the table yet (at %s): the first registration of such a name fails, and every call of it in a template is \"function doesn't exist\"", fnKey(owner), refused)
			}
		}
		// the field matches the function's receiver type
		want := ""
		for k, fld := range kindField {
			_ = k
			if strings.Contains(fn.Name(), "Register"+fld+"Func") {
				want = fld
			}
		}
		if want != "" && !strings.HasSuffix(mapPath, "."+want) {
			s.Violation(rule, fk+"|table of its own receiver type", m.InstrPos(upd), "%s stores into customFunc%s, expected the %s table", fk, mapPath, want)
		}
	}
	// (2) who may write the registry
	regSet := map[*ssa.Function]bool{}
	for _, fn := range m.helpersOfSet(r.Registry) { // the registration functions and the helpers only they call
		regSet[fn] = true
	}
	nw := 0
	for _, fn := range m.ModFns {
		if isUserPkg(fnPkgPath(fn)) || fn.Blocks == nil {
			continue
		}
		for _, b := range fn.Blocks {
			for _, in := range b.Instrs {
				switch x := in.(type) {
				case *ssa.MapUpdate:
					if isCustomFuncMap(x.Map.Type()) && !regSet[fn] {
						nw++
						s.Violation(rule, fnKey(fn)+"|writes a registry map", m.InstrPos(in), "%s writes a custom-function table outside the Register*Func functions: registrations can be replaced or lost", fnKey(fn))
					}
				case *ssa.Store:
					// replacing a table or the whole registry
					if fa, ok := x.Addr.(*ssa.FieldAddr); ok && strings.HasSuffix(derefTypeString(fa.X.Type()), "config.Func") {
						if _, isAlloc := fa.X.(*ssa.Alloc); !isAlloc {
							nw++
							s.Violation(rule, fnKey(fn)+"|replaces a registry table", m.InstrPos(in), "%s replaces a table of an existing registry", fnKey(fn))
						}
					}
					if g, ok := x.Addr.(*ssa.Global); ok && canonGlobalName(g) == "customFunc" && fn.Name() != "init" {
						nw++
						s.Violation(rule, fnKey(fn)+"|replaces the registry", m.InstrPos(in), "%s replaces the whole custom-function registry: functions registered before are lost", fnKey(fn))
					}
				case *ssa.Call:
					if bi, ok := x.Call.Value.(*ssa.Builtin); ok && (bi.Name() == "delete" || bi.Name() == "clear") && len(x.Call.Args) > 0 && isCustomFuncMap(x.Call.Args[0].Type()) {
						nw++
						s.Violation(rule, fnKey(fn)+"|deletes from a registry map", m.InstrPos(in), "%s removes entries from a custom-function table", fnKey(fn))
					}
				}
			}
		}
	}
	if nw == 0 {
		s.OK(rule, "registry|written only by Register*Func", "-", "no map update, delete, clear or table replacement of a custom-function table outside the %d registration functions", len(r.Registry))
	}
	// (3)-(6) dispatch in evalCallExp
	ec := m.Method("evaluator", "Evaluator", "evalCallExp")
	hc := m.PkgFunc("evaluator", "hasCustomFunc")
	if ec == nil || hc == nil {
		s.Undecided(rule, "evalCallExp", "-", "evalCallExp / hasCustomFunc not found")
		return
	}
	ek := fnKey(ec)
	// builtin lookup dominates the custom path: the custom-function test (in evalCallExp or a private helper) is reached
	// only after the builtin lookup missed — as a dominating fact, or as the false verdict of a helper that returns
	// "not handled" only on the miss edge of that lookup
	ecFns := m.helpersOf(ec)
	inEc := map[*ssa.Function]bool{}
	for _, f := range ecFns {
		inEc[f] = true
	}
	isBuiltinOK := func(v ssa.Value) bool {
		ex, ok := v.(*ssa.Extract)
		if !ok || ex.Index != 1 {
			return false
		}
		lk, ok := ex.Tuple.(*ssa.Lookup)
		return ok && lk.CommaOk && strings.HasSuffix(types.TypeString(lk.X.Type(), nil), "object.Builtin")
	}
	var builtinOK ssa.Value
	var hcCall *ssa.Call
	for _, f := range ecFns {
		for _, b := range f.Blocks {
			for _, in := range b.Instrs {
				if v, ok := in.(ssa.Value); ok && isBuiltinOK(v) {
					builtinOK = v
				}
				if c, ok := in.(*ssa.Call); ok && c.Call.StaticCallee() == hc {
					hcCall = c
				}
			}
		}
	}
	missVerdict := func(h *ssa.Function) bool { // every "false verdict" return of h lies on the miss edge of the builtin lookup
		if h == nil || !inEc[h] || h.Blocks == nil {
			return false
		}
		n := 0
		for _, b := range h.Blocks {
			if _, isRet := b.Instrs[len(b.Instrs)-1].(*ssa.Return); !isRet || isSuccessReturn(b) {
				continue
			}
			n++
			okMiss := false
			for _, f := range expandFacts(factsAt(b)) {
				if isBuiltinOK(f.Cond) && !f.Holds {
					okMiss = true
				}
			}
			if !okMiss {
				return false
			}
		}
		return n > 0
	}
	// a lookup helper of evalCallExp that hands back the built-in's function or nil (`fn, known := lookupBuiltin(t, name)`):
	// every nil it returns lies on a miss edge of a lookup in the built-in tables
	inBuiltinTables := func(lk *ssa.Lookup) bool {
		ts := types.TypeString(lk.X.Type(), nil)
		return strings.Contains(ts, "object.Builtin")
	}
	nilOnlyOnMiss := func(h *ssa.Function, idx int) bool {
		if h == nil || !inEc[h] || h.Blocks == nil {
			return false
		}
		n := 0
		for _, b := range h.Blocks {
			ret, isRet := b.Instrs[len(b.Instrs)-1].(*ssa.Return)
			if !isRet || idx >= len(ret.Results) {
				continue
			}
			n++
			if !isNilConst(ret.Results[idx]) {
				continue
			}
			miss := false
			for _, f := range expandFacts(factsAt(b)) {
				if ex, isEx := f.Cond.(*ssa.Extract); isEx && ex.Index == 1 && !f.Holds {
					if lk, isLk := ex.Tuple.(*ssa.Lookup); isLk && lk.CommaOk && inBuiltinTables(lk) {
						miss = true
					}
				}
				if bo, isBo := f.Cond.(*ssa.BinOp); isBo && (bo.Op == token.EQL || bo.Op == token.NEQ) && (bo.Op == token.EQL) == f.Holds {
					for _, pr := range [][2]ssa.Value{{bo.X, bo.Y}, {bo.Y, bo.X}} {
						if lk := lookupOf(pr[0]); lk != nil && isNilConst(pr[1]) && inBuiltinTables(lk) {
							miss = true
						}
					}
				}
			}
			if !miss {
				return false
			}
		}
		return n > 0
	}
	helperFoundNone := func(f Fact) bool {
		bo, isBo := f.Cond.(*ssa.BinOp)
		if !isBo || (bo.Op != token.EQL && bo.Op != token.NEQ) || (bo.Op == token.EQL) != f.Holds {
			return false
		}
		for _, pr := range [][2]ssa.Value{{bo.X, bo.Y}, {bo.Y, bo.X}} {
			if !isNilConst(pr[1]) {
				continue
			}
			switch x := pr[0].(type) {
			case *ssa.Extract:
				if c, isC := x.Tuple.(*ssa.Call); isC && c.Call.StaticCallee() != nil && nilOnlyOnMiss(c.Call.StaticCallee(), x.Index) {
					return true
				}
			case *ssa.Call:
				if x.Call.StaticCallee() != nil && nilOnlyOnMiss(x.Call.StaticCallee(), 0) {
					return true
				}
			}
		}
		return false
	}
	guard := func(b *ssa.BasicBlock) bool {
		for _, f := range expandFacts(factsAt(b)) {
			if isBuiltinOK(f.Cond) && !f.Holds {
				return true
			}
			if helperFoundNone(f) {
				return true
			}
			if vc := verdictCall(f.Cond); vc != nil && !f.Holds && missVerdict(vc.Call.StaticCallee()) {
				return true
			}
		}
		return false
	}
	switch {
	case hcCall == nil || (builtinOK == nil && false):
		s.Undecided(rule, ek+"|built-in first", m.Pos(ec.Pos()), "builtin lookup or hasCustomFunc call not found in evalCallExp")
	default:
		if dom, _ := m.guardedLifting(hcCall, guard, 0); dom {
			s.OK(rule, ek+"|built-in first", m.InstrPos(hcCall), "the custom-function lookup is reached only on the miss edge of the builtin lookup")
		} else {
			s.Violation(rule, ek+"|built-in first", m.InstrPos(hcCall), "custom functions are consulted without the builtin lookup having missed: a custom function could shadow a built-in of the same name")
		}
	}
	// kind -> field agreement in hasCustomFunc and evalCallExp
	ecSet := ecFns // evalCallExp and the private helpers its body is split into
	for gi, group := range [][]*ssa.Function{{hc}, ecSet} {
		seen := map[string]string{}
		gfn := group[0]
		_ = gi
		for _, fn := range group {
			for _, b := range fn.Blocks {
				for _, in := range b.Instrs {
					lk, ok := in.(*ssa.Lookup)
					if !ok || !isCustomFuncMap(lk.X.Type()) {
						continue
					}
					p := fieldPathOf(lk.X)
					field := p[strings.LastIndex(p, ".")+1:]
					a := m.NewArith(fn)
					kk := m.kindFacts(a, expandFacts(factsAt(b)))
					kind := ""
					for v, k := range kk.valConst {
						_ = v
						if _, isKind := kindField[k]; isKind {
							kind = k
						}
					}
					for _, k := range kk.kind {
						if _, isKind := kindField[k]; isKind {
							kind = k
						}
					}
					key := fmt.Sprintf("%s|%s table used for %s receivers", fnKey(fn), field, kind)
					if kind == "" {
						s.Undecided(rule, fmt.Sprintf("%s|%s table lookup", fnKey(fn), field), m.InstrPos(lk), "lookup in the %s table is not under a test of the receiver kind", field)
						continue
					}
					seen[kind] = field
					if kindField[kind] == field {
						s.OK(rule, key, m.InstrPos(lk), "kind %s -> customFunc.%s", kind, field)
					} else {
						s.Violation(rule, key, m.InstrPos(lk), "%s consults customFunc.%s for receivers of kind %s (expected customFunc.%s): a function registered for one type is looked up under another", fnKey(fn), field, kind, kindField[kind])
					}
				}
			}
		}
		var miss []string
		for k := range kindField {
			if _, ok := seen[k]; !ok {
				miss = append(miss, k)
			}
		}
		sort.Strings(miss)
		if len(miss) > 0 {
			s.Violation(rule, fnKey(gfn)+"|all five receiver types", m.Pos(gfn.Pos()), "%s has no custom-function lookup for receiver kinds %v: functions registered for them are never callable", fnKey(gfn), miss)
		}
	}
	// arguments by Val(), result by NativeToObject
	otn := m.Method("evaluator", "Evaluator", "objectsToNativeType")
	if otn == nil {
		// whatever it is called: the function of the evaluator from a list of objects to a list of Go values that the
		// custom-function call gets its arguments from
		for _, f := range m.helpersOf(ec) {
			sig := f.Signature
			if f.Blocks == nil || sig.Results().Len() != 1 || sig.Params().Len() != 1 {
				continue
			}
			if types.TypeString(sig.Results().At(0).Type(), nil) != "[]any" && types.TypeString(sig.Results().At(0).Type(), nil) != "[]interface{}" {
				continue
			}
			if strings.HasSuffix(types.TypeString(sig.Params().At(0).Type(), nil), "object.Object") && strings.HasPrefix(types.TypeString(sig.Params().At(0).Type(), nil), "[]") {
				otn = f
			}
		}
	}
	okVal := false
	if otn != nil {
		for _, b := range otn.Blocks {
			for _, in := range b.Instrs {
				if c, ok := in.(*ssa.Call); ok && c.Call.IsInvoke() && c.Call.Method.Name() == "Val" {
					okVal = true
				}
			}
		}
	}
	if okVal {
		s.OK(rule, "evaluator.(*Evaluator).objectsToNativeType|arguments converted by Val()", m.Pos(otn.Pos()), "every argument object is converted with its Val() method")
	} else {
		s.Violation(rule, "evaluator.(*Evaluator).objectsToNativeType|arguments converted by Val()", "-", "arguments of custom functions are not converted through Val()")
	}
	nto := m.PkgFunc("object", "NativeToObject")
	okRes := false
	for _, fn := range ecSet {
		for _, b := range fn.Blocks {
			for _, in := range b.Instrs {
				if c, ok := in.(*ssa.Call); ok && c.Call.StaticCallee() == nto {
					okRes = true
				}
			}
		}
	}
	if okRes {
		s.OK(rule, ek+"|result converted by NativeToObject", m.Pos(ec.Pos()), "the custom function's result goes through the same conversion as data")
	} else {
		s.Violation(rule, ek+"|result converted by NativeToObject", m.Pos(ec.Pos()), "custom function results are not converted with NativeToObject: they would not appear as if passed as data")
	}
	// every custom-function result reaches the template as the object that value would be as data: on every path from
	// the call to a return it goes through NativeToObject or into a fresh object of its type (no shortcut such as nil -> NIL)
	nDyn := 0
	for _, fn := range ecSet {
		for _, b := range fn.Blocks {
			for idx, in := range b.Instrs {
				c, ok := in.(*ssa.Call)
				if !ok || c.Call.StaticCallee() != nil || c.Call.IsInvoke() || !strings.HasSuffix(types.TypeString(c.Call.Value.Type(), nil), "CustomFunc") {
					continue
				}
				nDyn++
				// flow: from the instruction that produced the value (the call itself; in a caller, the call of the helper
				// that hands the raw result up) every path to a return converts it, or returns it raw to callers that do
				var flow func(root ssa.Instruction, depth int) string
				flow = func(root ssa.Instruction, depth int) string {
					rootV, _ := root.(ssa.Value)
					derives := func(v ssa.Value) bool {
						for i := 0; i < 5; i++ {
							if v == rootV {
								return true
							}
							switch x := v.(type) {
							case *ssa.Convert:
								v = x.X
							case *ssa.ChangeType:
								v = x.X
							case *ssa.MakeInterface:
								v = x.X
							case *ssa.ChangeInterface:
								v = x.X
							case *ssa.Phi:
								all := len(x.Edges) > 0
								for _, e := range x.Edges {
									if k, isK := e.(*ssa.Const); isK && k.IsNil() {
										continue
									}
									if stripIface(e) != rootV {
										all = false
									}
								}
								return all
							default:
								return false
							}
						}
						return v == rootV
					}
					passes := func(bb *ssa.BasicBlock, from int) bool {
						for i := from; i < len(bb.Instrs); i++ {
							switch x := bb.Instrs[i].(type) {
							case *ssa.Call:
								if x.Call.StaticCallee() == nto {
									return true
								}
								if sc := x.Call.StaticCallee(); sc != nil && m.InModule(sc) {
									for _, a := range x.Call.Args {
										if derives(a) {
											return true // handed to a module conversion helper (checked by R-KINDS for its own contract)
										}
									}
								}
							case *ssa.Store:
								if fa, isFA := x.Addr.(*ssa.FieldAddr); isFA && derives(x.Val) {
									if _, fresh := fa.X.(*ssa.Alloc); fresh {
										return true
									}
								}
							}
						}
						return false
					}
					seen := map[*ssa.BasicBlock]bool{}
					escape := ""
					var walk func(bb *ssa.BasicBlock, from int)
					walk = func(bb *ssa.BasicBlock, from int) {
						if escape != "" || (from == 0 && seen[bb]) {
							return
						}
						if from == 0 {
							seen[bb] = true
						}
						if passes(bb, from) {
							return
						}
						if ret, isRet := bb.Instrs[len(bb.Instrs)-1].(*ssa.Return); isRet {
							if len(ret.Results) == 1 && derives(retSource(ret, 0)) && depth < 2 {
								// handed up unconverted: every caller must convert it
								node := m.CG.Nodes[root.Parent()]
								nCallers := 0
								if node != nil {
									for _, e := range node.In {
										cs, isCall := e.Site.(*ssa.Call)
										if !isCall || !m.InModule(e.Caller.Func) || isSynthetic(e.Caller.Func) {
											continue
										}
										nCallers++
										if w := flow(cs, depth+1); w != "" && escape == "" {
											escape = w
										}
									}
								}
								if nCallers == 0 && escape == "" {
									escape = m.InstrPos(ret)
								}
								return
							}
							escape = m.InstrPos(ret)
							return
						}
						for _, sc := range bb.Succs {
							walk(sc, 0)
						}
					}
					idx0 := 0
					for i, x := range root.Block().Instrs {
						if x == root {
							idx0 = i + 1
						}
					}
					walk(root.Block(), idx0)
					return escape
				}
				_ = idx
				escape := flow(c, 0)
				key := fmt.Sprintf("%s|result of the %s function becomes the object its value would be as data", fnKey(fn), shortTypeName(types.TypeString(c.Call.Value.Type(), nil)))
				if escape == "" {
					s.OK(rule, key, m.InstrPos(c), "every path from the call to a return passes NativeToObject or stores the result into a fresh object")
				} else {
					s.Violation(rule, key, escape, "a path from the custom function call to this return bypasses the conversion of its result (e.g. a nil slice answered with NIL instead of the empty array the same value gives as data)")
				}
			}
		}
	}
	if nDyn < 5 {
		s.Undecided(rule, ek+"|custom function calls", m.Pos(ec.Pos()), "expected calls through the five custom-function tables, found %d", nDyn)
	}
	// fall-through error names function and receiver type
	okErr := false
	var ecBlocks []*ssa.BasicBlock
	for _, fn := range ecSet {
		ecBlocks = append(ecBlocks, fn.Blocks...)
	}
	for _, b := range ecBlocks {
		ret, ok := b.Instrs[len(b.Instrs)-1].(*ssa.Return)
		if !ok {
			continue
		}
		c, ok := stripIface(ret.Results[0]).(*ssa.Call)
		if !ok || c.Call.StaticCallee() == nil || canonFnName(c.Call.StaticCallee()) != "newError" {
			continue
		}
		if msg, ok := constOfValue(c.Call.Args[2]); ok && strings.Contains(msg, "doesn't exist for type") && len(variadicElems(c.Call.Args[3])) == 2 {
			okErr = true
		}
	}
	if okErr {
		s.OK(rule, ek+"|unknown function error names function and type", m.Pos(ec.Pos()), "the fall-through returns ErrNoFuncForThisType with the function name and the receiver type")
	} else {
		s.Violation(rule, ek+"|unknown function error names function and type", m.Pos(ec.Pos()), "calling an unregistered name does not end in the error that names the function and the receiver type")
	}
}

func hitBlock(ex *ssa.Extract) *ssa.BasicBlock {
	for _, r := range *ex.Referrers() {
		if iff, ok := r.(*ssa.If); ok {
			return iff.Block().Succs[0]
		}
	}
	return nil
}

// RunValSiblings: Val() of every value kind returns its payload, containers convert every element recursively.
func (m *Model) RunValSiblings(s *Sink, rule string) {
	// the conversion handed to user functions is a fresh Go value on every call: Val() writes nothing but memory it
	// allocates itself (no cache on the object, no package-level memo) and does not hand out the object's own storage
	ea := m.Effects()
	for _, fn := range m.ModFns {
		if fn.Blocks == nil || canonFnName(fn) != "Val" || shortPkg(fnPkgPath(fn)) != "object" || fn.Signature.Recv() == nil {
			continue
		}
		key := fnKey(fn) + "|writes nothing but the value it builds"
		sum := ea.sums[fn]
		if sum == nil {
			s.Undecided(rule, key, m.Pos(fn.Pos()), "no effect summary")
			continue
		}
		bad := ""
		for _, w := range sum.writes {
			bad = fmt.Sprintf("%s at %s", w.what, w.pos)
		}
		if bad == "" {
			s.OK(rule, key, m.Pos(fn.Pos()), "no store, map update or in-place append reaches the receiver or package-level memory")
		} else {
			s.Violation(rule, key, m.Pos(fn.Pos()), "%s writes memory that outlives the call (%s): a converted value cached on the object is shared by every custom function that receives it, so one call can change what a later call sees", fnKey(fn), bad)
		}
	}
	for _, tn := range []string{"Int", "Float", "Str", "Bool"} {
		fn := m.Method("object", tn, "Val")
		key := fmt.Sprintf("object.(*%s).Val|returns its payload", tn)
		if fn == nil {
			s.Undecided(rule, key, "-", "Val not found")
			continue
		}
		ok := len(fn.Blocks) == 1
		if ok {
			ret, isRet := fn.Blocks[0].Instrs[len(fn.Blocks[0].Instrs)-1].(*ssa.Return)
			ok = isRet && len(ret.Results) == 1 && fieldPathOf(ret.Results[0]) == ".Value"
		}
		if ok {
			s.OK(rule, key, m.Pos(fn.Pos()), "returns the Value field unchanged")
		} else {
			s.Violation(rule, key, m.Pos(fn.Pos()), "%s does not return exactly the value's payload: custom functions would receive a different Go value than the template holds", fnKey(fn))
		}
	}
	// containers: decided by evaluating Val() on an abstract Array of three elements / Obj of three pairs whose own
	// Val() results are given tokens: the result holds exactly those tokens, in order (by key for the object)
	strT := m.namedType("object", "Str")
	for _, c := range []struct{ typ, field string }{{"Array", "Elements"}, {"Obj", "Pairs"}} {
		fn := m.Method("object", c.typ, "Val")
		key := fmt.Sprintf("object.(*%s).Val|converts every element recursively", c.typ)
		ct := m.namedType("object", c.typ)
		if fn == nil || ct == nil || strT == nil {
			s.Undecided(rule, key, "-", "Val not found")
			continue
		}
		fi := -1
		cst := ct.Underlying().(*types.Struct)
		for i := 0; i < cst.NumFields(); i++ {
			if canonFieldName(ct, i, cst.Field(i).Name()) == c.field {
				fi = i
			}
		}
		names := []string{"a", "b", "c"}
		elems := map[string]*iStruct{}
		vals := map[*iStruct]any{}
		for _, n := range names {
			e := &iStruct{typ: strT, fields: map[int]any{}}
			elems[n] = e
			vals[e] = constant.MakeString("val-" + n)
		}
		recv := &iStruct{typ: ct, fields: map[int]any{}}
		if c.typ == "Array" {
			recv.fields[fi] = iSlice{&iArr{elems: []any{elems["a"], elems["b"], elems["c"]}}, 0, 3}
		} else {
			mp := &iMap{vals: map[string]any{}, kval: map[string]constant.Value{}}
			for _, n := range names {
				k := constant.MakeString(n)
				mp.keys = append(mp.keys, k.ExactString())
				mp.vals[k.ExactString()] = elems[n]
				mp.kval[k.ExactString()] = k
			}
			recv.fields[fi] = mp
		}
		ip := &Interp{m: m}
		ip.call = func(cl *ssa.Call, args []any) (any, bool) {
			if cl.Call.IsInvoke() && cl.Call.Method.Name() == "Val" && len(args) == 1 {
				if o, ok := args[0].(*iStruct); ok {
					if v, have := vals[o]; have {
						return v, true
					}
				}
			}
			return nil, false
		}
		res, known := ip.Run(fn, []any{recv})
		got, okRes := "", false
		switch r := res.(type) {
		case iSlice:
			okRes = true
			for _, e := range r.arr.elems[r.lo:r.high] {
				if cv, isC := e.(constant.Value); isC && cv.Kind() == constant.String {
					got += constant.StringVal(cv) + ";"
				} else {
					got += "?;"
				}
			}
		case *iMap:
			if r.vals != nil {
				okRes = true
				ks := append([]string{}, r.keys...)
				sort.Strings(ks)
				for _, k := range ks {
					if cv, isC := r.vals[k].(constant.Value); isC && cv.Kind() == constant.String {
						got += constant.StringVal(r.kval[k]) + "=" + constant.StringVal(cv) + ";"
					} else {
						got += "?;"
					}
				}
			}
		}
		want := "val-a;val-b;val-c;"
		if c.typ == "Obj" {
			want = "a=val-a;b=val-b;c=val-c;"
		}
		if c.typ == "Obj" {
			// an object without properties is still an object: an empty map, not nil
			k0 := "object.(*Obj).Val|an empty object converts to an empty map"
			empty := &iStruct{typ: ct, fields: map[int]any{fi: &iMap{vals: map[string]any{}, kval: map[string]constant.Value{}}}}
			ip0 := &Interp{m: m}
			r0, known0 := ip0.Run(fn, []any{empty})
			mp0, isMap := r0.(*iMap)
			switch {
			case ip0.stuck != "":
				s.Undecided(rule, k0, m.Pos(fn.Pos()), "%s could not be evaluated on an empty object (%s)", fnKey(fn), ip0.stuck)
			case known0 && isMap && mp0.vals != nil && len(mp0.vals) == 0:
				s.OK(rule, k0, m.Pos(fn.Pos()), "case evaluation: the result is a freshly made map without entries")
			default:
				s.Violation(rule, k0, m.Pos(fn.Pos()), "%s on an object without properties does not yield an empty map (it yields %s): a custom function receives nil instead of map[string]any{}, and the value renders differently when handed back", fnKey(fn), ifaceDesc(r0))
			}
		}
		switch {
		case ip.stuck != "" || !known || !okRes:
			s.Undecided(rule, key, m.Pos(fn.Pos()), "%s could not be evaluated on an abstract container (%s)", fnKey(fn), ip.stuck)
		case got == want:
			s.OK(rule, key, m.Pos(fn.Pos()), "case evaluation: a container of three elements converts to exactly their three Val() results")
		default:
			s.Violation(rule, key, m.Pos(fn.Pos()), "%s on a container of three elements yields [%s] instead of their Val() results [%s]: custom functions would receive extra zero values, internal objects or fewer elements", fnKey(fn), got, want)
		}
	}
	_ = token.ADD
}

func ifaceDesc(v any) string {
	switch t := v.(type) {
	case nil:
		return "an unknown value"
	case iNil:
		return "nil"
	case *iMap:
		return fmt.Sprintf("a map of %d entries", len(t.vals))
	case constant.Value:
		return t.ExactString()
	}
	return fmt.Sprintf("%T", v)
}

// RunHasCustomCases: whether a custom function exists for a receiver depends on the table of the receiver's own type
// and on nothing else — decided by evaluating hasCustomFunc on an abstract registry. In particular a name that is a
// built-in of ANOTHER type is an ordinary name here (C20: "unless a built-in of that name exists" for that type).
func (m *Model) RunHasCustomCases(s *Sink, rule string) {
	hc := m.PkgFunc("evaluator", "hasCustomFunc")
	ft := m.namedType("config", "Func")
	if hc == nil || ft == nil || len(hc.Params) != 3 {
		s.Undecided(rule, "evaluator.hasCustomFunc", "-", "hasCustomFunc(registry, type, name) / config.Func not found")
		return
	}
	tables := map[string]string{"Str": "STRING", "Arr": "ARRAY", "Int": "INTEGER", "Float": "FLOAT", "Bool": "BOOLEAN"}
	st := ft.Underlying().(*types.Struct)
	fieldOf := map[string]int{}
	for i := 0; i < st.NumFields(); i++ {
		fieldOf[canonFieldName(ft, i, st.Field(i).Name())] = i
	}
	// a built-in name of some other type, per kind
	builtinOf := map[string]map[string]bool{}
	for _, b := range m.Facts().Builtins {
		if builtinOf[b.Kind] == nil {
			builtinOf[b.Kind] = map[string]bool{}
		}
		builtinOf[b.Kind][b.Name] = true
	}
	foreign := func(kind string) string {
		var names []string
		for k, set := range builtinOf {
			if k == kind {
				continue
			}
			for n := range set {
				if !builtinOf[kind][n] {
					names = append(names, n)
				}
			}
		}
		sort.Strings(names)
		if len(names) == 0 {
			return ""
		}
		return names[0]
	}
	mkMap := func(names ...string) *iMap {
		mp := &iMap{vals: map[string]any{}, kval: map[string]constant.Value{}}
		for _, n := range names {
			k := constant.MakeString(n)
			mp.keys = append(mp.keys, k.ExactString())
			mp.vals[k.ExactString()] = iFn{}
			mp.kval[k.ExactString()] = k
		}
		return mp
	}
	var fields []string
	for f := range tables {
		fields = append(fields, f)
	}
	sort.Strings(fields)
	bad, undecided, cases := "", "", 0
	for _, f := range fields {
		kind := tables[f]
		fi, ok := fieldOf[f]
		if !ok {
			undecided = "config.Func has no table " + f
			break
		}
		fb := foreign(kind)
		reg := &iStruct{typ: ft, fields: map[int]any{}}
		for _, g := range fields {
			if g == f {
				reg.fields[fieldOf[g]] = mkMap("own_"+f, fb)
			} else {
				reg.fields[fieldOf[g]] = mkMap("other_" + g)
			}
		}
		_ = fi
		type q struct {
			name string
			want bool
			what string
		}
		qs := []q{{"own_" + f, true, "a name registered for this type"}, {"nobody", false, "a name registered nowhere"}}
		for _, g := range fields {
			if g != f {
				qs = append(qs, q{"other_" + g, false, "a name registered only for another type (" + tables[g] + ")"})
			}
		}
		if fb != "" {
			qs = append(qs, q{fb, true, "a name registered for this type that is a built-in of another type (`" + fb + "`)"})
		}
		for _, c := range qs {
			cases++
			ip := &Interp{m: m, useGlobals: true}
			// the three parameters are told apart by their types (registry, receiver type, name), whatever their order
			args := make([]any, len(hc.Params))
			for pi, prm := range hc.Params {
				switch {
				case strings.HasSuffix(types.TypeString(prm.Type(), nil), "config.Func"):
					args[pi] = reg
				case strings.HasSuffix(types.TypeString(prm.Type(), nil), "object.ObjectType"):
					args[pi] = constant.MakeString(kind)
				default:
					args[pi] = constant.MakeString(c.name)
				}
			}
			res, known := ip.Run(hc, args)
			rc, isC := res.(constant.Value)
			if !known || !isC || rc.Kind() != constant.Bool || ip.stuck != "" {
				if undecided == "" {
					undecided = fmt.Sprintf("%s receiver, %s: %s", kind, c.what, ip.stuck)
				}
				continue
			}
			if constant.BoolVal(rc) != c.want && bad == "" {
				bad = fmt.Sprintf("for a %s receiver and %s it answers %v", kind, c.what, constant.BoolVal(rc))
			}
		}
	}
	key := fnKey(hc) + "|a custom function exists exactly when its name is in the table of the receiver's type"
	switch {
	case bad != "":
		s.Violation(rule, key, m.Pos(hc.Pos()), "%s: %s — a registered function is reported as missing (or a missing one as present) depending on something other than the receiver type's own table", fnKey(hc), bad)
	case undecided != "":
		s.Undecided(rule, key, m.Pos(hc.Pos()), "hasCustomFunc could not be evaluated on an abstract registry (%s)", undecided)
	default:
		s.OK(rule, key, m.Pos(hc.Pos()), "case evaluation on an abstract registry: %d (receiver type, name) cases, including names that are built-ins of other types", cases)
	}
}

// RunCtxComplete — R-REGISTRY (context): an evaluation context carries the registry of custom functions. Every
// allocation of ctx.EvalCtx in the module stores its CustomFunc (and Config) field before the context leaves the
// function that builds it; a context built without one (for a layout evaluated by an evaluator of its own, ...) makes
// every custom function "not defined" there.
func (m *Model) RunCtxComplete(s *Sink, rule string) {
	ctxT := m.namedType("ctx", "EvalCtx")
	if ctxT == nil {
		s.Undecided(rule, "ctx.EvalCtx", "-", "the evaluation context type was not found")
		return
	}
	st := ctxT.Underlying().(*types.Struct)
	need := map[int]string{}
	for i := 0; i < st.NumFields(); i++ {
		switch canonFieldName(ctxT, i, st.Field(i).Name()) {
		case "CustomFunc", "Config":
			need[i] = st.Field(i).Name()
		}
	}
	n := 0
	for _, fn := range m.ModFns {
		if fn.Blocks == nil || isUserPkg(fnPkgPath(fn)) {
			continue
		}
		c := m.Ctx(fn)
		for _, b := range fn.Blocks {
			for _, in := range b.Instrs {
				al, ok := in.(*ssa.Alloc)
				if !ok {
					continue
				}
				pn := ptrNamed(al.Type())
				if pn == nil || !types.Identical(pn, ctxT) {
					continue
				}
				n++
				stores := map[int][]ssa.Instruction{}
				var escapes []ssa.Instruction
				for _, r := range *al.Referrers() {
					if fa, isFA := r.(*ssa.FieldAddr); isFA && fa.X == ssa.Value(al) {
						for _, rr := range *fa.Referrers() {
							if sto, isSt := rr.(*ssa.Store); isSt && sto.Addr == ssa.Value(fa) {
								if k, isK := sto.Val.(*ssa.Const); isK && k.IsNil() {
									continue
								}
								stores[fa.Field] = append(stores[fa.Field], sto)
							}
						}
						continue
					}
					if _, isDbg := r.(*ssa.DebugRef); isDbg {
						continue
					}
					escapes = append(escapes, r)
				}
				var fields []int
				for f := range need {
					fields = append(fields, f)
				}
				sort.Ints(fields)
				for _, f := range fields {
					key := fmt.Sprintf("%s|a context built here carries %s", fnKey(fn), need[f])
					missing := ""
					for _, esc := range escapes {
						covered := false
						for _, sto := range stores[f] {
							if c.instrDominates(sto, esc) {
								covered = true
							}
						}
						if !covered && missing == "" {
							missing = m.InstrPos(esc)
						}
					}
					if missing == "" {
						s.OK(rule, key, m.InstrPos(al), "stored before the context leaves the function")
					} else {
						s.Violation(rule, key, m.InstrPos(al), "%s builds an evaluation context that leaves it (at %s) without its %s: an evaluator given this context finds no custom functions (every call of one fails with \"function ... doesn't exist\") resp. no configuration", fnKey(fn), missing, need[f])
					}
				}
			}
		}
	}
	if n == 0 {
		s.Undecided(rule, "ctx.EvalCtx|constructions", "-", "no construction of an evaluation context found")
	}
}

// RunFreshContext — R-REGISTRY (current registry): a custom function "stays callable, before and after templates are
// loaded": the evaluation context a render uses is built in that very call (`evaluator.New(ctx.NewContext(…, customFunc,
// …))`), so it carries the registry as it is now. A context kept on the Template from the first rendering of a file
// (with its own copy of the registry) never sees a function registered afterwards.
func (m *Model) RunFreshContext(s *Sink, rule string) {
	st := m.Method("textwire", "Template", "String")
	if st == nil {
		s.Undecided(rule, "textwire.(*Template).String", "-", "not found")
		return
	}
	ok := false
	m.walkInlined(st, 2, func(in ssa.Instruction, resolve func(ssa.Value) ssa.Value, _ int) {
		c, isC := in.(*ssa.Call)
		if !isC || !isEvalCall(m, c) {
			return
		}
		if nc, isN := m.throughCtor(resolve(c.Call.Args[0])).(*ssa.Call); isN && nc.Call.StaticCallee() != nil && canonFnName(nc.Call.StaticCallee()) == "New" && inPkg(nc.Call.StaticCallee(), "evaluator") {
			if cc, isCC := m.throughCtor(resolve(nc.Call.Args[0])).(*ssa.Call); isCC && cc.Call.StaticCallee() != nil && canonFnName(cc.Call.StaticCallee()) == "NewContext" {
				ok = true
			}
		}
	})
	key := fnKey(st) + "|a render sees the registry as it is when it runs"
	if ok {
		s.OK(rule, key, m.Pos(st.Pos()), "Eval is called on evaluator.New(ctx.NewContext(...)) built in this call from the package's registry")
	} else {
		s.Violation(rule, key, m.Pos(st.Pos()), "the evaluation context Template.String evaluates with is not built in the call (it is kept from an earlier rendering): a function registered after the first rendering of a file cannot be called from it")
	}
}
