package main

import "golang.org/x/tools/go/ssa"

func init() {
	register(&PropInfo{
		ID:    "C09",
		Title: "Evaluation never crashes",
		Rules: []string{
			"R-BRANCH: @if / the ternary by cases — a failing condition yields its error",
			"R-USERCODE: the data conversion calls no method of a data value (no interface method call on a non-module interface, no reflect method call)",
			"R-RECDEPTH: the recursion of the data conversion (NativeToObject and its helpers) runs through a depth or cycle guard — it has none: known finding (data with a pointer cycle)",
			"R-TOKPOS: who writes the lexer's position counters; token positions (evaluation errors carry the line of the construct)",
			"R-EVALERR: the result of every recursive Eval is returned or tested with isError before use, and on the error side the error is what is returned (itself, wrapped, or as the single element of a result list)",
			"R-ASSERT: every x.(T) without comma-ok in render-reachable code is dominated by a kind test of x, covered by the builtin dispatch-table invariant, an AST-field stored-type invariant, or established at all call sites",
		},
		Decided:     "TODO",
		NotDecided:  "TODO",
		Assumptions: trustedBase,
		Run: func(m *Model, s *Sink) {
			m.RunBranch(s, "R-BRANCH")          // a fault in any condition that is evaluated is returned (by cases)
			m.RunNoUserMethods(s, "R-USERCODE") // no method of a data value is called while the data is converted (a typed nil Stringer)
			// the conversion of the caller's data recurses over the data: a pointer cycle never ends (a Go stack overflow is not a panic)
			if nto := m.PkgFunc("object", "NativeToObject"); nto != nil {
				var conv []*ssa.Function
				for _, f := range m.reachableFns([]*ssa.Function{nto}) {
					if shortPkg(fnPkgPath(f)) == "object" {
						conv = append(conv, f)
					}
				}
				m.RunRecDepth(s, "R-RECDEPTH", conv, 1, true)
			}
			m.RunTokPos(s, "R-TOKPOS")   // errors carry the line of the construct: the line counters are advanced by readChar only
			m.RunEvalErr(s, "R-EVALERR") // a failing sub-expression fails the render: its error is returned, not replaced or left among the results
			r := m.Roots()
			fns := m.reachableFns(r.Render)
			ac := m.newAssertChecker(s)
			ac.Run("R-ASSERT", fns)
			bc := m.newBoundsChecker(s)
			bc.Run("R-BOUNDS", "R-DIVGUARD", fns)
			m.RunNilField(s, "R-NILFIELD", fns)
			m.RunPanicCall(s, "R-PANICCALL", fns)
			m.RunHashableKeys(s, "R-PANICCALL", fns) // no map keyed by an interface is indexed with a value that may be a slice or a map
			m.RunNilFuncCall(s, "R-PANICCALL", fns)  // a function looked up in a table is called only where it was found
			m.RunNilObj(s, "R-NILOBJ", fns)
			m.RunOkObj(s, "R-NILOBJ", fns) // the object of a (object, found) lookup is used only where it was found
			m.RunTypedNil(s, "R-NILOBJ", fns)
			m.RunNilRet(s, "R-NILRET", fns)
		},
	})
}
