package main

func init() {
	register(&PropInfo{
		ID:    "C09",
		Title: "Evaluation never crashes",
		Rules: []string{
			"R-ASSERT: every x.(T) without comma-ok in render-reachable code is dominated by a kind test of x, covered by the builtin dispatch-table invariant, an AST-field stored-type invariant, or established at all call sites",
		},
		Decided:     "TODO",
		NotDecided:  "TODO",
		Assumptions: trustedBase,
		Run: func(m *Model, s *Sink) {
			r := m.Roots()
			fns := m.reachableFns(r.Render)
			ac := m.newAssertChecker(s)
			ac.Run("R-ASSERT", fns)
			bc := m.newBoundsChecker(s)
			bc.Run("R-BOUNDS", "R-DIVGUARD", fns)
			m.RunNilField(s, "R-NILFIELD", fns)
			m.RunPanicCall(s, "R-PANICCALL", fns)
			m.RunNilObj(s, "R-NILOBJ", fns)
			m.RunTypedNil(s, "R-NILOBJ", fns)
			m.RunNilRet(s, "R-NILRET", fns)
		},
	})
}
