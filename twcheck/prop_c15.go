package main

func init() {
	register(&PropInfo{
		ID:    "C15",
		Title: "One loaded Template and the string API are safe for concurrent use",
		Rules: []string{
			"R-SHARED-RW: no package-level variable (atomic or not) is both written and read on paths from the render entry points: a concurrent call could change it between a render's write and its read",
			"R-SHARED(race): no store/map update/in-place append whose address derives from a package-level variable, the *Template receiver or the caller's data is reachable from the four render entry points (provenance over SSA with per-function write summaries to a fixpoint over the VTA call graph)",
		},
		Decided:     "TODO",
		NotDecided:  "TODO",
		Assumptions: trustedBase,
		Run: func(m *Model, s *Sink) {
			m.RunSharedWrites(s, "R-SHARED", m.Roots().Render, "race")
			// synchronised or atomic state is no data race, but a render that reads package-level state which renders
			// (or the string API) also write gives results that depend on how concurrent calls interleave
			m.RunSharedWrites(s, "R-SHARED-RW", m.Roots().Render, "history")
			m.RunProcessState(s, "R-SHARED", m.Roots().Render) // registries and settings the standard library keeps for the whole process
		},
	})
	register(&PropInfo{
		ID:    "C16",
		Title: "A render depends only on its arguments, not on earlier calls",
		Rules: []string{
			"R-SHARED(history): no package-level variable is both written and read on paths from the render entry points, and no write reaches the loaded Template, its parsed programs, the configuration or the caller's data",
		},
		Decided:     "TODO",
		NotDecided:  "TODO",
		Assumptions: trustedBase,
		Run: func(m *Model, s *Sink) {
			m.RunSharedWrites(s, "R-SHARED", m.Roots().Render, "history")
			m.RunProcessState(s, "R-SHARED", m.Roots().Render) // registries and settings the standard library keeps for the whole process
		},
	})
}
