package main

func init() {
	register(&PropInfo{
		ID:    "C11",
		Title: "Built-in functions meet their contracts, are pure and keep UTF-8 valid",
		Rules: []string{
			"R-OPTABLE (singletons): no builtin compares its receiver or arguments with the TRUE / FALSE / NIL singletons",
			"R-PURE: no builtin-table function writes (store, in-place append, copy destination, sort, mutating call) memory derived from its receiver, its arguments or package-level state (effect summaries)",
			"R-ARGS: every comma-ok assertion on args[i] returns (nil, error) on its miss edge; args[k] is indexed only under a len(args) guard (R-BOUNDS); unchecked assertions only on the receiver under the dispatch-table invariant (R-ASSERT)",
			"R-UTF8: no string in a builtin is sliced or indexed at a byte offset that is not a character boundary; len/reverse/at/truncate/capitalize convert to []rune",
			"R-SIBLING: each builtin's error messages quote the name and kind it is registered under; first/last are at(0)/at(-1); each function asserts its receiver to the Go type of its kind; the table has 39+ entries over 5 kinds",
			"R-REGISTRY(built-in first): custom functions are consulted only after the builtin lookup missed",
		},
		Decided:     "TODO",
		NotDecided:  "TODO",
		Assumptions: trustedBase,
		Run: func(m *Model, s *Sink) {
			m.RunSingletons(s, "R-OPTABLE") // a boolean receiver is used by its value, not by identity with the TRUE singleton (booleans from data and from contains() are fresh objects)
			m.RunBuiltinPurity(s, "R-PURE")
			m.RunBuiltinRules(s, "R-ARGS", "R-UTF8", "R-SIBLING")
			m.RunRegistry(s, "R-REGISTRY") // includes: custom functions are consulted only after the builtin lookup missed
			fns, _ := m.builtinClosure()
			m.newAssertChecker(s).Run("R-ASSERT", fns)
			m.newBoundsChecker(s).Run("R-BOUNDS", "R-DIVGUARD", fns)
			s.RequireMin("R-PURE", 39, "one purity obligation per builtin function")
			s.RequireMin("R-ARGS", 2, "comma-ok argument assertions (12 on the reference tree; helpers may funnel them)")
		},
	})
}
