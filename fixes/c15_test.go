package demo

import (
	"sync"
	"testing"

	textwire "github.com/textwire/textwire/v2"
)

// Under -race this reports the known finding of C15 (write/write race on usesTemplates).
func TestC15ConcurrentEvaluateString(t *testing.T) {
	var wg sync.WaitGroup
	for g := 0; g < 8; g++ {
		wg.Add(1)
		go func() {
			defer wg.Done()
			for i := 0; i < 50; i++ {
				if out, err := textwire.EvaluateString("{{ 1 + 2 }}", nil); err != nil || out != "3" {
					t.Errorf("got %q %v", out, err)
				}
			}
		}()
	}
	wg.Wait()
}
