package demo

import (
	"strings"
	"testing"

	textwire "github.com/textwire/textwire/v2"
)

func evalNoPanic(t *testing.T, inp string, data map[string]any) (out string, err error) {
	t.Helper()
	defer func() {
		if r := recover(); r != nil {
			t.Errorf("PANIC for %q: %v", inp, r)
		}
	}()
	return textwire.EvaluateString(inp, data)
}

func TestC09NoPanic(t *testing.T) {
	cases := []struct {
		inp  string
		data map[string]any
	}{
		{`{{ 1.x }}`, nil},
		{`@each(v in 5)x@end`, nil},
		{`@for(;;)x@break@end`, nil},
		{`@for(i = 0;;i++)x@break@end`, nil},
		{`@for(;false;)x@end`, nil},
		{`@for(i++; i < 2; i++)x@break@end`, map[string]any{"i": 0}},
		{`{{ 5 % 0 }}`, nil},
		{`{{ o[""] }}`, map[string]any{"o": map[string]any{"a": 1}}},
		{`{{ "hello".truncate(-1) }}`, nil},
		{`{{ "abc".at(-5) }}`, nil},
		{`{{ "abc".repeat(-1) }}`, nil},
		{`{{ 5.decimal(".", -1) }}`, nil},
		{`{{ [1,2,3].slice(2,1) }}`, nil},
		{`{{ p }}`, map[string]any{"p": (*int)(nil)}},
		{`{{ p }}`, map[string]any{"p": []any{make(chan int)}}},
		{`{{ p }}`, map[string]any{"p": map[string]any{"c": make(chan int)}}},
		{`{{ p }}`, map[string]any{"p": struct{ C chan int }{}}},
	}
	for _, c := range cases {
		evalNoPanic(t, c.inp, c.data)
	}
}

func TestC12NestedUnsupportedIsError(t *testing.T) {
	for _, d := range []map[string]any{
		{"p": []any{make(chan int)}},
		{"p": map[string]any{"c": make(chan int)}},
		{"p": struct{ C chan int }{}},
		{"p": map[int]string{1: "a"}},
	} {
		_, err := evalNoPanic(t, `x`, d)
		if err == nil {
			t.Errorf("expected unsupported type error for %#v", d)
		}
	}
	out, err := evalNoPanic(t, `{{ p }}`, map[string]any{"p": (*int)(nil)})
	if err != nil || out != "" {
		t.Errorf("nil pointer should print as nil: %q %v", out, err)
	}
}

func TestC03ForBreak(t *testing.T) {
	out, err := evalNoPanic(t, `@for(; c; )x@break@end`, map[string]any{"c": true})
	if err != nil || out != "x" {
		t.Errorf("got %q %v", out, err)
	}
}

func TestC11UTF8(t *testing.T) {
	out, _ := evalNoPanic(t, `{{ "héllo".truncate(2) }}`, nil)
	if out != "hé..." {
		t.Errorf("truncate: %q", out)
	}
	out, _ = evalNoPanic(t, `{{ "éa".capitalize() }}`, nil)
	if out != "Éa" {
		t.Errorf("capitalize: %q", out)
	}
	_ = strings.ToUpper
}

func TestC01FloatDec(t *testing.T) {
	for inp, want := range map[string]string{`{{ 0.5-- }}`: "-0.5", `{{ x-- }}`: "-2.5", `{{ 4.4-- }}`: "3.4", `{{ 1.0-- }}`: "0.0"} {
		out, err := evalNoPanic(t, inp, map[string]any{"x": -1.5})
		if err != nil || out != want {
			t.Errorf("%s: got %q %v want %q", inp, out, err, want)
		}
	}
}

func TestC08LexerEscapeAtStart(t *testing.T) {
	evalNoPanic(t, "{{-- --}\\@end", nil)
}

func TestC01Precedence(t *testing.T) {
	for inp, want := range map[string]string{
		`{{ 8 / 2 / 2 }}`:          "2",
		`{{ 8 / 2 * 3 }}`:          "12",
		`{{ 3 == 1 + 2 }}`:         "1",
		`{{ 2 * 3 % 4 }}`:          "2",
		`{{ x = 1 + 2 }}{{ x }}`:   "3",
		`{{ 1 + 2 * 3 }}`:          "7",
		`{{ 10 - 2 - 3 }}`:         "5",
	} {
		out, err := evalNoPanic(t, inp, nil)
		if err != nil || out != want {
			t.Errorf("%s: got %q %v want %q", inp, out, err, want)
		}
	}
}

func TestC01BangOnDataBool(t *testing.T) {
	for inp, want := range map[string]string{`{{ !flag }}`: "0", `{{ !off }}`: "1", `{{ !true }}`: "0", `{{ !nil }}`: "1", `{{ !n }}`: "1"} {
		out, err := evalNoPanic(t, inp, map[string]any{"flag": true, "off": false, "n": nil})
		if err != nil || out != want {
			t.Errorf("%s: got %q %v want %q", inp, out, err, want)
		}
	}
}
