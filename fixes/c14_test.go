package demo

import (
	"testing"

	textwire "github.com/textwire/textwire/v2"
)

func TestC14Deterministic(t *testing.T) {
	cases := []struct {
		inp  string
		data map[string]any
	}{
		{`{{ {a: 1, b: 2, c: 3, d: 4, e: 5} }}`, nil},
		{`@dump({a: 1, b: 2, c: 3, d: 4, e: 5})`, nil},
		{`{{ {a: x1, b: x2, c: x3, d: x4} }}`, nil},                                       // several failing entries
		{`x`, map[string]any{"a": make(chan int), "b": func() {}, "c": make(chan bool)}}, // several unsupported values
		{`{{ o }}`, map[string]any{"o": map[string]int{"a": 1, "b": 2, "c": 3, "d": 4}}},
	}
	for _, c := range cases {
		first := ""
		for i := 0; i < 40; i++ {
			out, err := textwire.EvaluateString(c.inp, c.data)
			got := out
			if err != nil {
				got = "ERR:" + err.Error()
			}
			if i == 0 {
				first = got
			} else if got != first {
				t.Errorf("%q: run %d differs:\n%s\nvs\n%s", c.inp, i, got, first)
				break
			}
		}
	}
}
