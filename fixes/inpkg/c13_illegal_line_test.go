package textwire

import (
	"strings"
	"testing"

	"github.com/textwire/textwire/v2/lexer"
	"github.com/textwire/textwire/v2/token"
)

// An illegal character that is the first character of a line must be reported on that line (fix b962b4c):
// before the fix the ILLEGAL token ended on the previous character, i.e. on the previous line.
func TestIllegalCharacterIsReportedOnItsOwnLine(t *testing.T) {
	_, err := EvaluateString("a\n{{ 1 +\n# }}", nil)
	if err == nil || !strings.Contains(err.Error(), "ERROR:3]") {
		t.Fatalf("expected an error on line 3, got %v", err)
	}
	l := lexer.New("ab\n{{ 1\n# }}")
	for {
		tok := l.NextToken()
		if tok.Type == token.ILLEGAL {
			if tok.Pos.StartLine != 2 || tok.Pos.EndLine != 2 || tok.Pos.StartCol != 0 || tok.Pos.EndCol != 0 {
				t.Fatalf("ILLEGAL token range %+v, want line 2 col 0..0", tok.Pos)
			}
			return
		}
		if tok.Type == token.EOF {
			t.Fatal("no ILLEGAL token")
		}
	}
}
