package textwire

import (
	"os"
	"path/filepath"
	"strings"
	"testing"

	"github.com/textwire/textwire/v2/config"
)

// A slot error of a component use carries the page's path and the line of the slot in the page (fix: ApplyComponent
// took the line from the component's program, whose first token ends on some line of the component file).
func TestSlotErrorLineIsThePagesLine(t *testing.T) {
	saved, savedUses := *userConfig, usesTemplates.Load()
	defer func() { *userConfig = saved; usesTemplates.Store(savedUses) }()
	cases := []struct {
		name, page, comp string
		line              string
	}{
		{"unknown slot", "a\nb\nc\n@component(\"card\")\n@slot(\"nope\")x@end\n@end", "<div>@slot(\"body\")</div>", ":5]"},
		{"unknown default slot", "a\nb\n@component(\"card\")@slot x@end@end", "\n\n\n\n<div>@slot(\"body\")</div>", ":3]"},
		{"slot passed twice", "a\n@component(\"card\")\n\n@slot(\"body\")x@end\n@slot(\"body\")y@end\n@end", "<div>\n\n\n\n\n\n@slot(\"body\")</div>", ":4]"},
	}
	for _, c := range cases {
		dir := t.TempDir()
		os.WriteFile(filepath.Join(dir, "index.tw"), []byte(c.page), 0o644)
		os.WriteFile(filepath.Join(dir, "card.tw"), []byte(c.comp), 0o644)
		_, err := NewTemplate(&config.Config{TemplateDir: dir, TemplateExt: ".tw"})
		if err == nil {
			t.Errorf("%s: no error", c.name)
			continue
		}
		if !strings.Contains(err.Error(), "index.tw"+c.line) {
			t.Errorf("%s: the error does not name index.tw%s: %v", c.name, c.line, err)
		}
	}
}
