package textwire

import (
	"os"
	"path/filepath"
	"testing"

	"github.com/textwire/textwire/v2/config"
)

// Slots that follow a comment placed right after "@component(...)" belong to the component (fix: see known-findings).
// Before the fix the page rendered `<main><div>[][]</div>\n  H\n  F\n</main>`.
func TestSlotsAfterACommentAreAttached(t *testing.T) {
	dir, err := os.MkdirTemp(".", "c07fix-")
	if err != nil {
		t.Fatal(err)
	}
	saved := *userConfig
	defer func() { *userConfig = saved; os.RemoveAll(dir) }()
	files := map[string]string{
		"components/card.tw": `<div>[@slot("head")][@slot("foot")]</div>`,
		"page.tw":            "<main>@component(\"~card\")\n  {{-- the slots --}}\n  @slot(\"head\")H@end\n  @slot(\"foot\")F@end\n@end</main>",
	}
	for name, content := range files {
		p := filepath.Join(dir, name)
		os.MkdirAll(filepath.Dir(p), 0o755)
		os.WriteFile(p, []byte(content), 0o644)
	}
	tpl, lerr := NewTemplate(&config.Config{TemplateDir: dir, TemplateExt: ".tw"})
	if lerr != nil {
		t.Fatal(lerr)
	}
	out, rerr := tpl.String("page", nil)
	if rerr != nil || out != "<main><div>[H][F]</div></main>" {
		t.Fatalf("got %q, %v", out, rerr)
	}
}
