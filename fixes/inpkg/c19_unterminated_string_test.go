package textwire

import (
	"strings"
	"testing"

	"github.com/textwire/textwire/v2/lexer"
	"github.com/textwire/textwire/v2/token"
)

// An unterminated string does not push the position past the input (fix: readString skips the closing quote only when
// there is one). Before the fix the ILLEGAL token of `{{ "abc` ended at column 7 of a 7-byte input (columns 0..6), the
// end-of-input token sat two past the last byte, and "a\n{{ \"abc }}\n\n" was reported on line 4 of a 3-line input.
func TestUnterminatedStringPositions(t *testing.T) {
	l := lexer.New(`{{ "abc`)
	var toks []token.Token
	for {
		tok := l.NextToken()
		toks = append(toks, tok)
		if tok.Type == token.EOF || len(toks) > 10 {
			break
		}
	}
	ill, eof := toks[len(toks)-2], toks[len(toks)-1]
	if ill.Type != token.ILLEGAL || ill.Pos.EndCol != 6 || ill.Pos.EndLine != 0 {
		t.Errorf("ILLEGAL token %v ends at line %d col %d, want line 0 col 6", ill.Type, ill.Pos.EndLine, ill.Pos.EndCol)
	}
	if eof.Pos.StartCol != 7 || eof.Pos.StartLine != 0 {
		t.Errorf("EOF token at line %d col %d, want line 0 col 7", eof.Pos.StartLine, eof.Pos.StartCol)
	}
	_, err := EvaluateString("a\n{{ \"abc }}\n\n", nil)
	if err == nil || !strings.Contains(err.Error(), "ERROR:3]") {
		t.Errorf("want an error on line 3 (the last line of the input), got %v", err)
	}
}
