package textwire

import (
	"os"
	"path/filepath"
	"strings"
	"testing"

	"github.com/textwire/textwire/v2/config"
)

// C06: two inserts with one name are an error — also when one of them sits in the body of the other. Before the fix
// the outer insert was tested before its body was parsed and registered after it: the inner one registered in
// between and was overwritten, no error.
func TestFixNestedDuplicateInsert(t *testing.T) {
	dir := t.TempDir()
	must := func(err error) {
		if err != nil {
			t.Fatal(err)
		}
	}
	must(os.MkdirAll(filepath.Join(dir, "layouts"), 0o755))
	must(os.WriteFile(filepath.Join(dir, "layouts", "m.tw"), []byte(`[@reserve("a")]`), 0o644))
	must(os.WriteFile(filepath.Join(dir, "page.tw"), []byte("@use(\"~m\")\n@insert(\"a\")outer\n@insert(\"a\", \"inner\") tail@end"), 0o644))
	saved := *userConfig
	defer func() { *userConfig = saved; usesTemplates.Store(false) }()
	_, err := NewTemplate(&config.Config{TemplateDir: dir, TemplateExt: ".tw"})
	if err == nil {
		t.Fatalf("a page with an insert \"a\" nested in an insert \"a\" was loaded without an error")
	}
	if !strings.Contains(err.Error(), "page.tw:2") || !strings.Contains(err.Error(), "'a'") {
		t.Fatalf("the duplicate is not reported for the insert 'a' of page.tw:2: %v", err)
	}
}
