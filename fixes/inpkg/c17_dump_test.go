package textwire

import (
	"strings"
	"testing"
)

// @dump of a failing expression must fail the render, not print the error object (with the file path) into the page.
func TestDumpOfFailingExpressionFails(t *testing.T) {
	out, err := EvaluateString(`a@dump(nope)b`, nil)
	if err == nil {
		t.Fatalf("expected an error, got output %q", out)
	}
	if strings.Contains(out, "nope") {
		t.Fatalf("error text leaked into the output: %q", out)
	}
}
