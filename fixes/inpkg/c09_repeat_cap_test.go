package textwire

import (
	"strings"
	"testing"
)

// A count that cannot be honoured is an error, not a panic: before the fix `"ab".repeat(9223372036854775807)` panicked in
// strings.Repeat (output length overflow) and `1.decimal(".", 9223372036854775807)` in the builder (makeslice).
func TestOversizedCountsAreErrors(t *testing.T) {
	for _, tpl := range []string{
		`{{ "ab".repeat(9223372036854775807) }}`,
		`{{ "ab".repeat(4611686018427387904) }}`,
		`{{ "a".repeat(9223372036854775807) }}`,
		`{{ 1.decimal(".", 9223372036854775807) }}`,
		`{{ "1".decimal(".", 9223372036854775807) }}`,
	} {
		func() {
			defer func() {
				if r := recover(); r != nil {
					t.Errorf("%s panicked: %v", tpl, r)
				}
			}()
			out, err := EvaluateString(tpl, nil)
			if err == nil {
				t.Errorf("%s: no error (output of %d bytes)", tpl, len(out))
			} else if !strings.Contains(err.Error(), "longer than") {
				t.Errorf("%s: %v", tpl, err)
			}
		}()
	}
	// ordinary counts are unchanged
	if out, err := EvaluateString(`{{ "ab".repeat(3) }}|{{ "x".repeat(-2) }}|{{ 5.decimal(",", 3) }}`, nil); err != nil || out != "ababab||5,000" {
		t.Errorf("got %q, %v", out, err)
	}
}
