package textwire

import (
	"strings"
	"testing"
)

// A fault of an operator is reported on the operator's line (fix: the infix node, not its left operand, is handed to
// the error): before the fix `{{ 10\n\n/ 0 }}` reported line 1, where the left operand ends.
func TestInfixFaultsAreReportedOnTheOperatorLine(t *testing.T) {
	for _, c := range []struct {
		tpl  string
		line string
	}{
		{"{{ 10\n\n/ 0 }}", "ERROR:3]"},
		{"a\n{{ 10\n\n% 0 }}", "ERROR:4]"},
		{"{{ 10\n\n+ \"a\" }}", "ERROR:3]"},
		{"{{ 10 / 0 }}", "ERROR:1]"},
		{"\n\n{{ 1.5\n- true }}", "ERROR:4]"},
	} {
		_, err := EvaluateString(c.tpl, nil)
		if err == nil || !strings.Contains(err.Error(), c.line) {
			t.Errorf("%q: want %s, got %v", c.tpl, c.line, err)
		}
	}
}
