package textwire

import (
	"os"
	"path/filepath"
	"testing"

	"github.com/textwire/textwire/v2/config"
)

// An absolute template directory is the directory it names (fix: Configure cleans the path instead of trimming "/"
// at both ends): before the fix "/srv/app/templates" was looked up as "srv/app/templates" under the working directory.
func TestAbsoluteTemplateDir(t *testing.T) {
	saved, savedUses := *userConfig, usesTemplates.Load()
	defer func() { *userConfig = saved; usesTemplates.Store(savedUses) }()
	dir := t.TempDir() // absolute
	if err := os.MkdirAll(filepath.Join(dir, "sub"), 0o755); err != nil {
		t.Fatal(err)
	}
	os.WriteFile(filepath.Join(dir, "home.tw"), []byte("home {{ n }}"), 0o644)
	os.WriteFile(filepath.Join(dir, "sub", "page.tw"), []byte("page"), 0o644)
	for _, spelling := range []string{dir, dir + "/", dir + "//", dir + "/sub/.."} {
		tpl, err := NewTemplate(&config.Config{TemplateDir: spelling, TemplateExt: ".tw"})
		if err != nil {
			t.Errorf("%q: %v", spelling, err)
			continue
		}
		if out, err := tpl.String("home", map[string]any{"n": 1}); err != nil || out != "home 1" {
			t.Errorf("%q home: %q, %v", spelling, out, err)
		}
		if out, err := tpl.String("sub/page", nil); err != nil || out != "page" {
			t.Errorf("%q sub/page: %q, %v", spelling, out, err)
		}
	}
}
