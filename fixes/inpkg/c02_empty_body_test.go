package textwire

import "testing"

// An empty branch or loop body is an empty block (fix a6d2624): before the fix the @else / @elseif closing an empty
// body was skipped as an unknown statement and the following branch was parsed into the empty one.
func TestEmptyBodiesAreEmptyBlocks(t *testing.T) {
	for _, c := range []struct {
		tpl  string
		data map[string]any
		want string
	}{
		{"A@if(x)@else b @end B", map[string]any{"x": false}, "A b  B"},
		{"A@if(x)@else b @end B", map[string]any{"x": true}, "A B"},
		{"A@if(x)a@else@end B", map[string]any{"x": true}, "Aa B"},
		{"A@if(x)@elseif(y)c@else b @end B", map[string]any{"x": false, "y": true}, "Ac B"},
		{"A@if(x)a@elseif(y)@else b @end B", map[string]any{"x": false, "y": true}, "A B"},
		{"A@if(x)@end B", map[string]any{"x": true}, "A B"},
		{"@each(i in [1])@else none @end", nil, ""},
		{"@each(i in [])@else none @end", nil, " none "},
		{"@for(i = 0; i < 0; i++)@else none @end", nil, " none "},
		{"@for(i = 0; i < 2; i++)@end.", nil, "."},
		{"@if(a)@if(b)@else 1 @end@else 2 @end", map[string]any{"a": true, "b": false}, " 1 "},
	} {
		out, err := EvaluateString(c.tpl, c.data)
		if err != nil || out != c.want {
			t.Errorf("%q %v => %q err=%v, want %q", c.tpl, c.data, out, err, c.want)
		}
	}
}
