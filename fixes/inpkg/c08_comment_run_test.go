package textwire

import (
	"strings"
	"testing"
)

// A run of comments is lexed in a loop (fix: NextToken continues instead of calling itself): before the fix every
// consecutive comment added a stack frame and six million of them (54 MB) ended the process with a stack overflow.
// The demonstration uses a number that is harmless either way and checks the result only.
func TestRunOfComments(t *testing.T) {
	src := "a" + strings.Repeat("{{-- c --}}", 200000) + "b{{-- x --}}{{ 1 }}"
	out, err := EvaluateString(src, nil)
	if err != nil || out != "ab1" {
		t.Errorf("got %q, %v", out, err)
	}
}
