package demo

import (
	"os"
	"testing"

	textwire "github.com/textwire/textwire/v2"
	"github.com/textwire/textwire/v2/config"
)

func TestC04ComponentArgErrors(t *testing.T) {
	root := mkTree(t, map[string]string{
		"t/components/box.tw": "[{{ x }}]",
		"t/mismatch.tw":       `{{ x = "s" }}@component("~box", {x: 1})`,
		"t/reserved.tw":       `@component("~box", {x: 1, loop: 2})`,
		"t/ok.tw":             `@component("~box", {x: 1})`,
	})
	old, _ := os.Getwd()
	os.Chdir(root)
	defer os.Chdir(old)
	tpl, err := textwire.NewTemplate(&config.Config{TemplateDir: "t", TemplateExt: ".tw"})
	if err != nil {
		t.Fatal(err)
	}
	if out, ferr := tpl.String("ok", nil); ferr != nil || out != "[1]" {
		t.Errorf("ok: %q %v", out, ferr)
	}
	for _, name := range []string{"mismatch", "reserved"} {
		out, ferr := tpl.String(name, nil)
		if ferr == nil {
			t.Errorf("%s: expected an error, got output %q", name, out)
		}
	}
}
