package demo

import (
	"testing"

	textwire "github.com/textwire/textwire/v2"
)

// A struct field is reachable with its first letter lower-cased, whatever that letter is (fix: the fallback upper-cases
// the first rune, not the first byte). Before the fix `s["élan"]` / `s.élan` did not find the field Élan.
func TestLowerCasedFirstLetterIsARune(t *testing.T) {
	type S struct {
		Élan string
		Name string
		Ärger int
	}
	data := map[string]any{"s": S{"v", "n", 3}}
	out, err := textwire.EvaluateString(`{{ s["élan"] }}|{{ s["Élan"] }}|{{ s.name }}|{{ s.Name }}|{{ s["ärger"] }}`, data)
	if err != nil || out != "v|v|n|n|3" {
		t.Errorf("got %q, %v", out, err)
	}
	if _, err := textwire.EvaluateString(`{{ s["nope"] }}`, data); err == nil {
		t.Errorf("an unknown property is not an error")
	}
}
