package demo

import (
	"testing"

	textwire "github.com/textwire/textwire/v2"
)

// An argument of the wrong kind is an error for every receiver (fix: truncate checks its second argument, and decimal all
// of its arguments, before the early return for receivers that need no work). Before the fix `"abc".truncate(10, 5)`,
// `"abc".decimal(1)` and `"abc".decimal("a", "b", "c")` rendered `abc`.
func TestWrongArgumentKindsAreErrorsForEveryReceiver(t *testing.T) {
	for _, tpl := range []string{
		`{{ "abc".truncate(10, 5) }}`,
		`{{ "abc".decimal(1) }}`,
		`{{ "abc".decimal("a", "b", "c") }}`,
		`{{ "abc".decimal(".", "2") }}`,
		`{{ "abcdef".truncate(2, 5) }}`,
		`{{ "12".decimal(1) }}`,
	} {
		if out, err := textwire.EvaluateString(tpl, nil); err == nil {
			t.Errorf("%s: no error, got %q", tpl, out)
		}
	}
	if out, err := textwire.EvaluateString(`{{ "abc".truncate(10, "…") }}|{{ "abc".decimal(",", 3) }}|{{ "12".decimal(",", 3) }}|{{ "abcdef".truncate(2, "…") }}`, nil); err != nil || out != "abc|abc|12,000|ab…" {
		t.Errorf("got %q, %v", out, err)
	}
}
