package demo

import (
	"testing"
	"time"

	textwire "github.com/textwire/textwire/v2"
)

// evalTimeout reports hang (true) if EvaluateString does not return within a second.
func evalTimeout(inp string) (out string, err error, hung bool, panicked any) {
	type res struct {
		out string
		err error
		p   any
	}
	ch := make(chan res, 1)
	go func() {
		defer func() {
			if r := recover(); r != nil {
				ch <- res{p: r}
			}
		}()
		o, e := textwire.EvaluateString(inp, nil)
		ch <- res{out: o, err: e}
	}()
	select {
	case r := <-ch:
		return r.out, r.err, false, r.p
	case <-time.After(time.Second):
		return "", nil, true, nil
	}
}

func TestC08NoHangAndError(t *testing.T) {
	for _, inp := range []string{
		`@if(true)x`,
		`{{ {a: 1`,
		`{{ {a: 1 b: 2} }}`,
		`@if(true){{ # }}@end`,
		`@each(x in [1])y`,
		`@for(;;)y`,
		`@if(true)x@else y`,
		`@component("c")@slot("a")x`,
		`@insert("a")x`,
	} {
		_, err, hung, p := evalTimeout(inp)
		if hung {
			t.Errorf("HANG for %q", inp)
			continue
		}
		if p != nil {
			t.Errorf("PANIC for %q: %v", inp, p)
			continue
		}
		if err == nil {
			t.Errorf("no error for truncated/ill-formed input %q", inp)
		}
	}
}

func TestC05Comments(t *testing.T) {
	for inp, want := range map[string]string{
		`{{-- a --}x --}}y`: "y",
		`a{{-- b ---}}c`:    "ac",
		`a{{-- -- } --}}c`:  "ac",
		`a{{----}}c`:        "ac",
	} {
		out, err, hung, p := evalTimeout(inp)
		if hung || p != nil || err != nil || out != want {
			t.Errorf("%q: got %q err=%v hung=%v panic=%v want %q", inp, out, err, hung, p, want)
		}
	}
	for _, inp := range []string{`{{-- abc`, `{{ "abc`, `x{{-- a --}`} {
		_, err, hung, p := evalTimeout(inp)
		if hung || p != nil || err == nil {
			t.Errorf("%q: want error, got err=%v hung=%v panic=%v", inp, err, hung, p)
		}
	}
}

func TestC08UnclosedBraces(t *testing.T) {
	for _, inp := range []string{`{{ 1`, `{{ x = 1`, `a {{ 1 + `, `{{ 1 2 }}`} {
		_, err, hung, p := evalTimeout(inp)
		if hung || p != nil || err == nil {
			t.Errorf("%q: want error, got err=%v hung=%v panic=%v", inp, err, hung, p)
		}
	}
	for inp, want := range map[string]string{`{{ x = 1; x }}`: "1", `@for(i = 0; i < 2; i++){{ i }}@end`: "01", `{{ 1; 2 }}`: "12"} {
		out, err, _, _ := evalTimeout(inp)
		if err != nil || out != want {
			t.Errorf("%q: got %q %v want %q", inp, out, err, want)
		}
	}
}

func TestC08UnclosedDirectiveArgs(t *testing.T) {
	for _, inp := range []string{
		`@each(x in [1])@breakIf(x@end`,
		`@each(x in [1])a@breakIf(x`,
		`@each(x in [1])a@continueIf(x`,
		`@use("x"`,
		`@reserve("x"`,
		`@insert("a", 1`,
		`@component("c")@slot("a")x`,
		`@component("c")@slot x`,
		`@breakIf(x`,
		`@continueIf(x`,
	} {
		lex := inp
		_, err := parseOnly(lex)
		if err == nil {
			t.Errorf("%q: truncated input accepted by the parser", inp)
		}
	}
}

func TestC08TokenNameTable(t *testing.T) {
	for _, inp := range []string{`@dump(1;)@dump(2)`, `@if(1;)@each(x in y)`} {
		_, err, hung, p := evalTimeout(inp)
		if hung || p != nil || err == nil {
			t.Errorf("%q: want error, got err=%v hung=%v panic=%v", inp, err, hung, p)
		}
	}
}
