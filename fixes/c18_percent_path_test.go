package demo

import (
	"strings"
	"testing"

	textwire "github.com/textwire/textwire/v2"
	"github.com/textwire/textwire/v2/config"
)

// The text of an operating-system error is not a format (fix: fail.FromError passes it as the argument of "%s"):
// before the fix a missing template directory `v%sw` was reported as `lstat v%!s(MISSING)w: no such file or directory`.
func TestPercentInPathIsNotAVerb(t *testing.T) {
	_, err := textwire.NewTemplate(&config.Config{TemplateDir: "no-such-dir/v%sw/x%d", TemplateExt: ".tw"})
	if err == nil {
		t.Fatal("no error for a missing directory")
	}
	if !strings.Contains(err.Error(), "v%sw/x%d") || strings.Contains(err.Error(), "MISSING") {
		t.Errorf("the path is mangled: %v", err)
	}
}
