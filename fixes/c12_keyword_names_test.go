package demo

import (
	"testing"

	textwire "github.com/textwire/textwire/v2"
)

// A field or key spelled like a keyword is reachable with dot syntax (fix: after "." the parser accepted IDENT only, so
// `x.in`, `x.nil`, `x.true`, `x.false` did not parse although C12 promises fields "also with the first letter lower-cased").
func TestC12KeywordNamesAfterDot(t *testing.T) {
	type row struct {
		In    int
		Nil   string
		True  bool
		False int
	}
	data := map[string]any{"x": row{1, "n", true, 4}, "m": map[string]int{"in": 7, "nil": 8}}
	out, err := textwire.EvaluateString(`{{ x.in }}|{{ x.nil }}|{{ x.true }}|{{ x.false }}|{{ m.in }}|{{ m.nil }}|{{ x.In }}|{{ x["in"] }}`, data)
	if err != nil {
		t.Fatalf("error: %v", err)
	}
	if want := "1|n|1|4|7|8|1|1"; out != want {
		t.Errorf("got %q, want %q", out, want)
	}
	for _, bad := range []string{`{{ x. }}`, `{{ x.5 }}`, `{{ x."a" }}`} {
		if _, err := textwire.EvaluateString(bad, data); err == nil {
			t.Errorf("%s was accepted", bad)
		}
	}
	// keywords keep their meaning everywhere else
	out, err = textwire.EvaluateString(`{{ nil }}|{{ true }}|@each(v in [1,2]){{ v }}@end`, nil)
	if err != nil || out != "|1|12" {
		t.Errorf("keywords: %q, %v", out, err)
	}
}
