package demo

import (
	"time"
	"testing"

	textwire "github.com/textwire/textwire/v2"
)

// The post clause of @for steps its own variable when there is no init clause, and an assignment may be a post clause
// (fix: evalForStmt binds the value of `n++` to n when the loop has no init variable, and does not bind the nil an
// assignment yields). Before the fix `{{ n = 0 }}@for(; n < 3; n++){{ n }}@end` never ended and
// `@for(i = 0; i < 6; i = i + 2)` failed with "cannot assign variable 'i' of type 'INTEGER' to type 'NIL'".
func TestForPostClause(t *testing.T) {
	for tpl, want := range map[string]string{
		`{{ n = 0 }}@for(; n < 3; n++){{ n }}@end`:   "012",
		`{{ n = 5 }}@for(; n > 2; n--){{ n }},@end`:  "5,4,3,",
		`@for(i = 0; i < 6; i = i + 2){{ i }}@end`:   "024",
		`@for(i = 0; i < 3; i++){{ i }}@end`:         "012",
		`@for(i = 3; i > 0; i--){{ i }}@end`:         "321",
		`@for(i = 0; i < 0; i++)x@else none@end`:     " none",
		`{{ n = 0 }}@for(; n < 2; n++){{ n }}@end|{{ n }}`: "01|0",
	} {
		done := make(chan struct{})
		var out string
		var err error
		go func() { out, err = textwire.EvaluateString(tpl, nil); close(done) }()
		select {
		case <-done:
			if err != nil || out != want {
				t.Errorf("%q: got %q, %v; want %q", tpl, out, err, want)
			}
		case <-timeAfter():
			t.Fatalf("%q: does not end", tpl)
		}
	}
}

func timeAfter() <-chan time.Time { return time.After(5 * time.Second) }
