package demo

import (
	"os"
	"testing"

	textwire "github.com/textwire/textwire/v2"
	"github.com/textwire/textwire/v2/config"
)

// A component use with slots is closed by its own @end, and only whitespace may stand between its slots (fix: parseSlots
// requires END after the last slot and skips only whitespace text). Before the fix `@component("c")@slot x@end` (no @end
// of the component) was accepted, `@component("c")@slot x@end@if(a)b@end` lost its @if, and text after a slot vanished.
func TestComponentWithSlotsNeedsItsEnd(t *testing.T) {
	for _, tpl := range []string{
		`@component("c")@slot x@end`,
		`@component("c")@slot x@end@if(a)b@end`,
		`@component("c")@slot("a")x@end tail`,
		`@component("c")@slot("a")x@end tail@end`,
	} {
		if out, err := textwire.EvaluateString(tpl, map[string]any{"a": true}); err == nil {
			t.Errorf("%q: accepted (output %q)", tpl, out)
		}
	}
	root := mkTree(t, map[string]string{
		"t/c.tw":    `[@slot("a")|@slot]`,
		"t/page.tw": "@component(\"c\")\n  @slot(\"a\")A@end\n  @slot\n B @end\n@end|tail",
	})
	old, _ := os.Getwd()
	os.Chdir(root)
	defer os.Chdir(old)
	tpl, err := textwire.NewTemplate(&config.Config{TemplateDir: "t", TemplateExt: ".tw"})
	if err != nil {
		t.Fatal(err)
	}
	if out, ferr := tpl.String("page", nil); ferr != nil || out != "[A|\n B ]|tail" {
		t.Errorf("got %q %v", out, ferr)
	}
}
