package demo

import (
	"os"
	"testing"

	textwire "github.com/textwire/textwire/v2"
	"github.com/textwire/textwire/v2/config"
)

func TestC07IndependentUses(t *testing.T) {
	root := mkTree(t, map[string]string{
		"t/components/box.tw": "[{{ t }}: @slot]",
		"t/page.tw":           `@component("~box", {t: "A"})@slot one@end@end|@component("~box", {t: "B"})@slot two@end@end`,
	})
	old, _ := os.Getwd()
	os.Chdir(root)
	defer os.Chdir(old)
	tpl, err := textwire.NewTemplate(&config.Config{TemplateDir: "t", TemplateExt: ".tw"})
	if err != nil {
		t.Fatal(err)
	}
	out, ferr := tpl.String("page", nil)
	want := "[A:  one]|[B:  two]"
	if ferr != nil || out != want {
		t.Errorf("got %q %v want %q", out, ferr, want)
	}
}
