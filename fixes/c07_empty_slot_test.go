package demo

import (
	"os"
	"testing"

	textwire "github.com/textwire/textwire/v2"
	"github.com/textwire/textwire/v2/config"
)

// An empty slot body and an empty insert body are empty bodies (fix: parseSlots and parseInsertStmt use parseBody).
// Before the fix the @end of the empty slot was taken for its body's last token and the component's own @end for the
// slot's, so whatever followed the component was lost; `@insert("a")@end` was a parse error.
func TestEmptySlotAndInsertBodies(t *testing.T) {
	root := mkTree(t, map[string]string{
		"t/components/box.tw": `<div>@slot("x")|@slot</div>`,
		"t/layouts/main.tw":   `<html>@reserve("a")-@reserve("b")</html>`,
		"t/a.tw":              `@component("~box")@slot("x")@end@end|tail`,
		"t/b.tw":              `@component("~box")@slot("x")X@end@end|tail`,
		"t/c.tw":              `@component("~box")@slot@end@slot("x")@end@end|tail`,
		"t/d.tw":              `@component("~box")@slot D @end@end|tail`,
		"t/e.tw":              `@use("~main")@insert("a")@end@insert("b")B@end`,
	})
	old, _ := os.Getwd()
	os.Chdir(root)
	defer os.Chdir(old)
	tpl, err := textwire.NewTemplate(&config.Config{TemplateDir: "t", TemplateExt: ".tw"})
	if err != nil {
		t.Fatal(err)
	}
	for name, want := range map[string]string{
		"a": "<div>|</div>|tail",
		"b": "<div>X|</div>|tail",
		"c": "<div>|</div>|tail",
		"d": "<div>| D </div>|tail",
		"e": "<html>-B</html>",
	} {
		out, ferr := tpl.String(name, nil)
		if ferr != nil || out != want {
			t.Errorf("%s: got %q %v want %q", name, out, ferr, want)
		}
	}
}
