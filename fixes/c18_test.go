package demo

import (
	"os"
	"path/filepath"
	"testing"

	textwire "github.com/textwire/textwire/v2"
	"github.com/textwire/textwire/v2/config"
)

func mkTree(t *testing.T, files map[string]string) string {
	t.Helper()
	root := t.TempDir()
	for name, content := range files {
		p := filepath.Join(root, name)
		os.MkdirAll(filepath.Dir(p), 0o755)
		if err := os.WriteFile(p, []byte(content), 0o644); err != nil {
			t.Fatal(err)
		}
	}
	return root
}

func TestC18ExtensionAndNames(t *testing.T) {
	root := mkTree(t, map[string]string{
		"t/home.tw":        "home",
		"t/notes.tw.bak":   "{{ broken",
		"t/sub/deep.tw":    "deep",
		"t/a.tw.d/real.tw": "real",
	})
	old, _ := os.Getwd()
	os.Chdir(root)
	defer os.Chdir(old)
	for _, dir := range []string{"t", "t/", "./t", "t/../t", "t//"} {
		tpl, err := textwire.NewTemplate(&config.Config{TemplateDir: dir, TemplateExt: ".tw"})
		if err != nil {
			t.Errorf("dir %q: load failed: %v", dir, err)
			continue
		}
		for name, want := range map[string]string{"home": "home", "sub/deep": "deep", "a.tw.d/real": "real"} {
			out, ferr := tpl.String(name, nil)
			if ferr != nil || out != want {
				t.Errorf("dir %q: String(%q) = %q, %v; want %q", dir, name, out, ferr, want)
			}
		}
		if _, ferr := tpl.String("notes.bak", nil); ferr == nil {
			t.Errorf("dir %q: notes.tw.bak must not be registered", dir)
		}
	}
}
