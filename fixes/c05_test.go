package demo

import "testing"

func TestC05TextPassthrough(t *testing.T) {
	for _, inp := range []string{`}} b`, `a }} b`, `x } y { z`, "a\\b", `{{ 1 }}}}`, `@ x`, `a@b.c`, "l1\r\nl2\n", `}`, `}}`, `{ {`} {
		want := inp
		if inp == `{{ 1 }}}}` {
			want = "1}}"
		}
		out, err, hung, p := evalTimeout(inp)
		if hung || p != nil || err != nil || out != want {
			t.Errorf("%q: got %q err=%v hung=%v panic=%v", inp, out, err, hung, p)
		}
	}
}
