package demo

import (
	"testing"

	textwire "github.com/textwire/textwire/v2"
)

// A ")" where a statement is expected is an error (fix: parseStatement reports it). Before the fix `{{ x )` was accepted
// although its "{{" is never closed: ")" counts as an end of embedded code (it ends a clause of @for) and the program
// parser skipped it without a word.
func TestUnclosedBracesBeforeParen(t *testing.T) {
	for _, tpl := range []string{`{{ x )`, `{{ x ) }}`, `{{ 1 )`, `{{ x = 1 )`, `a{{ x ) b`} {
		if out, err := textwire.EvaluateString(tpl, map[string]any{"x": 1}); err == nil {
			t.Errorf("%q: accepted (output %q)", tpl, out)
		}
	}
	for tpl, want := range map[string]string{`@for(i = 0; i < 2; i++){{ i }}@end`: "01", `{{ (1) }}`: "1", `a ) b`: "a ) b", `@if(x)a)@end`: "a)"} {
		if out, err := textwire.EvaluateString(tpl, map[string]any{"x": 1}); err != nil || out != want {
			t.Errorf("%q: got %q, %v", tpl, out, err)
		}
	}
}
