package demo

import (
	"testing"
	"time"

	textwire "github.com/textwire/textwire/v2"
)

type c12Status string
type c12Celsius float64
type c12Count uint16
type c12Flag bool

// Values of named types are visible by their kind (fix: the conversion had cases for the predeclared types only, so a
// `type Status string` anywhere in the data made the call fail with "unsupported type").
func TestC12NamedScalarTypes(t *testing.T) {
	data := map[string]any{
		"s":    c12Status("open"),
		"c":    c12Celsius(21.5),
		"n":    c12Count(7),
		"f":    c12Flag(true),
		"d":    time.Duration(1500),
		"list": []c12Status{"a", "b"},
		"row":  struct{ State c12Status }{"done"},
		"m":    map[c12Status]c12Count{"k": 3},
	}
	out, err := textwire.EvaluateString(`{{ s }}|{{ c }}|{{ n + 1 }}|{{ f ? "y" : "n" }}|{{ d }}|{{ list[1] }}|{{ row.state }}|{{ m.k }}`, data)
	if err != nil {
		t.Fatalf("error: %v", err)
	}
	if want := "open|21.5|8|y|1500|b|done|3"; out != want {
		t.Errorf("got %q, want %q", out, want)
	}
	// kinds that are not supported are still refused
	if _, err := textwire.EvaluateString(`{{ x }}`, map[string]any{"x": make(chan int)}); err == nil {
		t.Errorf("a channel was accepted")
	}
	type c12Fn func()
	if _, err := textwire.EvaluateString(`{{ x }}`, map[string]any{"x": c12Fn(func() {})}); err == nil {
		t.Errorf("a func of a named type was accepted")
	}
}
