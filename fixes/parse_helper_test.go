package demo

import (
	"errors"
	"time"

	"github.com/textwire/textwire/v2/lexer"
	"github.com/textwire/textwire/v2/parser"
)

// parseOnly lexes and parses inp; error if the parser recorded one (or hung).
func parseOnly(inp string) (any, error) {
	type res struct {
		prog any
		err  error
	}
	ch := make(chan res, 1)
	go func() {
		p := parser.New(lexer.New(inp), "")
		prog := p.ParseProgram()
		if p.HasErrors() {
			ch <- res{nil, p.Errors()[0].Error()}
			return
		}
		ch <- res{prog, nil}
	}()
	select {
	case r := <-ch:
		return r.prog, r.err
	case <-time.After(time.Second):
		return nil, errors.New("HANG")
	}
}
