#!/bin/sh
# run.sh <property-id> <quick|thorough>  — runs the static checker against /repo's working tree.
set -u
cd "$(dirname "$0")"
export GOFLAGS=-mod=mod GOPROXY=off GOSUMDB=off GOTOOLCHAIN=local
unset GOWORK
REPO="${VERIF_REPO:-/repo}"
if [ ! -x bin/twcheck ] || [ -n "$(find twcheck -name '*.go' -newer bin/twcheck 2>/dev/null | head -1)" ]; then
  (cd twcheck && go build -o ../bin/twcheck .) || { echo "run.sh: building twcheck failed" >&2; exit 2; }
fi
if [ "${1:-}" = "--replay" ]; then
  cat "$2"; prop=$(sed -n 's/^property: //p' "$2"); exec ./bin/twcheck -prop "$prop" -tier quick -repo "$REPO" -verif "$(pwd)" -no-evidence
fi
exec ./bin/twcheck -prop "$1" -tier "${2:-${VERIF_TIER:-quick}}" -repo "$REPO" -verif "$(pwd)"
